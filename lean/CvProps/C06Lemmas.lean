import CvProps.RealInst
import CvProps.C18Lemmas
/-!
# Helper lemmas for C06 (restraints), all over `ℝ`.
-/
open Cv

namespace Cv.C06

open Cv.C18

/-! ## literals -/

theorem lit_one : (1.0 : ℝ) = 1 := by norm_num
theorem lit_zero : (0.0 : ℝ) = 0 := by norm_num
theorem lit_two : (2.0 : ℝ) = 2 := by norm_num
theorem lit_half : (0.5 : ℝ) = 1 / 2 := by norm_num

/-! ## periodic squared distance: derivative away from the cut (as in `C18.grad_periodic`) -/

theorem hasDerivAt_dist2S_periodic (p : ℝ) (_hp : 0 < p) (x1 x2 : ℝ)
    (hcut : ∀ n : ℤ, (x1 - x2) / p + 0.5 ≠ n) :
    HasDerivAt (fun x => dist2S (some p) x x2) (dist2SGrad (some p) x1 x2) x1 := by
  unfold dist2S dist2SGrad pdiff
  simp only [sq_real]
  have hcont : ContinuousAt (fun x : ℝ => (x - x2) / p + 1 / 2) x1 := by fun_prop
  have hev := floor_eventually_const (fun x : ℝ => (x - x2) / p + 1 / 2) x1 hcont
    (by intro n; have := hcut n; rwa [half_lit] at this)
  set k : ℤ := ⌊(x1 - x2) / p + 1 / 2⌋ with hk
  have hd : HasDerivAt (fun x : ℝ => x - x2 - (k : ℝ) * p) 1 x1 :=
    ((hasDerivAt_id x1).sub_const x2).sub_const _
  have h2 : HasDerivAt (fun x : ℝ => (x - x2 - (k : ℝ) * p) * (x - x2 - (k : ℝ) * p))
      (1 * (x1 - x2 - (k : ℝ) * p) + (x1 - x2 - (k : ℝ) * p) * 1) x1 := hd.mul hd
  have h3 : HasDerivAt (fun x : ℝ => pshift p (x - x2) * pshift p (x - x2))
      (1 * (x1 - x2 - (k : ℝ) * p) + (x1 - x2 - (k : ℝ) * p) * 1) x1 := by
    refine h2.congr_of_eventuallyEq ?_
    filter_upwards [hev] with y hy
    have hy' : ⌊(y - x2) / p + 1 / 2⌋ = k := hy
    rw [pshift_eq, hy']
  refine h3.congr_deriv ?_
  rw [pshift_eq, ← hk]
  norm_num; ring

theorem hasDerivAt_dist2S_none (x1 x2 : ℝ) :
    HasDerivAt (fun x => dist2S (none : Option ℝ) x x2) (dist2SGrad none x1 x2) x1 := by
  unfold dist2S dist2SGrad pdiff
  simp only [sq_real]
  have hd : HasDerivAt (fun x : ℝ => x - x2) 1 x1 := (hasDerivAt_id x1).sub_const x2
  have h2 := hd.mul hd
  refine h2.congr_deriv ?_
  norm_num; ring

/-! ## integer division facts used by the staged schedules -/

theorem ediv_succ_of_dvd {T n : Int} (hn : 0 < n) (h : (T + 1) % n = 0) :
    (T + 1) / n = T / n + 1 := by
  have h1 := Int.mul_ediv_add_emod (T + 1) n
  have h2 := Int.mul_ediv_add_emod T n
  have h3 := Int.emod_nonneg T (ne_of_gt hn)
  have h4 := Int.emod_lt_of_pos T hn
  rw [h] at h1
  have h5 : n * ((T + 1) / n - T / n - 1) = T % n + 1 - n := by linarith
  have h6 : (T + 1) / n - T / n - 1 = 0 := by
    by_contra hne
    rcases lt_or_gt_of_ne hne with hlt | hgt
    · have : (T + 1) / n - T / n - 1 ≤ -1 := by omega
      nlinarith
    · have : 1 ≤ (T + 1) / n - T / n - 1 := by omega
      nlinarith
  omega

theorem ediv_succ_of_not_dvd {T n : Int} (hn : 0 < n) (h : (T + 1) % n ≠ 0) :
    (T + 1) / n = T / n := by
  have h1 := Int.mul_ediv_add_emod (T + 1) n
  have h2 := Int.mul_ediv_add_emod T n
  have h3 := Int.emod_nonneg T (ne_of_gt hn)
  have h4 := Int.emod_lt_of_pos T hn
  have h3' := Int.emod_nonneg (T + 1) (ne_of_gt hn)
  have h4' := Int.emod_lt_of_pos (T + 1) hn
  have h7 : 1 ≤ (T + 1) % n := by omega
  have h5 : n * ((T + 1) / n - T / n) = T % n + 1 - (T + 1) % n := by linarith
  have h6 : (T + 1) / n - T / n = 0 := by
    by_contra hne
    rcases lt_or_gt_of_ne hne with hlt | hgt
    · have : (T + 1) / n - T / n ≤ -1 := by omega
      nlinarith
    · have : 1 ≤ (T + 1) / n - T / n := by omega
      nlinarith
  omega

/-! ## the updates leave the accumulated work alone -/

theorem updateCenters_accWork (p : RParams ℝ) (s : RState ℝ) (tgt : List ℝ) (lam : ℝ) :
    (updateCenters p s tgt lam).accWork = s.accWork := rfl

theorem cmu_accWork (p : RParams ℝ) (c : Clock) (s : RState ℝ) :
    (centersMovingUpdate p c s).accWork = s.accWork := by
  unfold centersMovingUpdate
  cases p.targetCenters with
  | none => rfl
  | some tgt =>
    dsimp only
    split_ifs <;> rfl

theorem kmu_accWork (p : RParams ℝ) (c : Clock) (s : RState ℝ) (xs : List ℝ) :
    (kMovingUpdate p c s xs).accWork = s.accWork := by
  unfold kMovingUpdate
  dsimp only
  split_ifs <;> rfl

/-! ## projections of one `update()` -/

/-- the state the force-constant update starts from -/
noncomputable def preK (p : RParams ℝ) (c : Clock) (s : RState ℝ) : RState ℝ :=
  if p.kind = .walls then s else centersMovingUpdate p c s

theorem restraintStep_stage (p : RParams ℝ) (c : Clock) (s : RState ℝ) (xs : List ℝ) :
    (restraintStep p c s xs).1.stage = (kMovingUpdate p c (preK p c s) xs).stage := rfl
theorem restraintStep_k (p : RParams ℝ) (c : Clock) (s : RState ℝ) (xs : List ℝ) :
    (restraintStep p c s xs).1.k = (kMovingUpdate p c (preK p c s) xs).k := rfl
theorem restraintStep_centers (p : RParams ℝ) (c : Clock) (s : RState ℝ) (xs : List ℝ) :
    (restraintStep p c s xs).1.centers = (kMovingUpdate p c (preK p c s) xs).centers := rfl

/-! ## histories -/

def opAdv : ROp ℝ → Nat
  | .step _ => 1
  | _ => 0

def advN : List (ROp ℝ) → Nat
  | [] => 0
  | op :: r => opAdv op + advN r

def opXs : ROp ℝ → List ℝ
  | .step xs => xs
  | .cont xs => xs
  | .restart xs => xs

def opClock (c : Clock) : ROp ℝ → Clock
  | .step _ => c.tick false
  | .cont _ => c.tick true
  | .restart _ => ({ it := c.it, itRestart := c.it, first := true, cont := false } : Clock).tick false

noncomputable def opPre (p : RParams ℝ) (s : RState ℝ) : ROp ℝ → RState ℝ
  | .restart _ => reloadR p s
  | _ => s

theorem rApply_clock (p : RParams ℝ) (r : RRun ℝ) (op : ROp ℝ) :
    (rApply p r op).clock = opClock r.clock op := by
  cases op <;> rfl

theorem rApply_s (p : RParams ℝ) (r : RRun ℝ) (op : ROp ℝ) :
    (rApply p r op).s = (restraintStep p (opClock r.clock op) (opPre p r.s op) (opXs op)).1 := by
  cases op <;> rfl

theorem rRun_cons (p : RParams ℝ) (r : RRun ℝ) (op : ROp ℝ) (ops : List (ROp ℝ)) :
    rRun p r (op :: ops) = rRun p (rApply p r op) ops := rfl

/-- invariants indexed by the number of advancing steps propagate along any history -/
theorem rRun_induct (p : RParams ℝ) (Inv : RRun ℝ → Int → Prop)
    (hstep : ∀ r T op, 0 ≤ T → Inv r T → Inv (rApply p r op) (T + (opAdv op : Int)))
    (ops : List (ROp ℝ)) (r : RRun ℝ) (T : Int) (hT : 0 ≤ T) (h : Inv r T) :
    Inv (rRun p r ops) (T + (advN ops : Int)) := by
  induction ops generalizing r T with
  | nil => simpa [rRun, advN] using h
  | cons op ops ih =>
    rw [rRun_cons]
    have := ih (rApply p r op) (T + (opAdv op : Int)) (by positivity) (hstep r T op hT h)
    simpa [advN, add_assoc] using this

/-! ### the clock after each kind of operation -/

structure ClockOK (p : RParams ℝ) (c : Clock) (T : Int) : Prop where
  first : c.first = false
  it : c.it = p.firstStep + T
  le : c.itRestart ≤ c.it

theorem opClock_step {c : Clock} (h : c.first = false) (xs : List ℝ) :
    opClock c (.step xs) = { c with it := c.it + 1, cont := false } := by
  simp [opClock, Clock.tick, h]

theorem opClock_cont {c : Clock} (h : c.first = false) (xs : List ℝ) :
    opClock c (.cont xs) = { c with cont := true } := by
  simp [opClock, Clock.tick, h]

theorem opClock_restart (c : Clock) (xs : List ℝ) :
    opClock c (.restart xs) = { it := c.it, itRestart := c.it, first := false, cont := false } := by
  simp [opClock, Clock.tick]

theorem clockOK_op {p : RParams ℝ} {c : Clock} {T : Int} (h : ClockOK p c T) (op : ROp ℝ) :
    ClockOK p (opClock c op) (T + (opAdv op : Int)) := by
  cases op with
  | step xs =>
    rw [opClock_step h.first]
    exact ⟨h.first, by simp [opAdv, h.it, add_assoc], by have := h.le; simp; omega⟩
  | cont xs =>
    rw [opClock_cont h.first]
    exact ⟨h.first, by simp [opAdv, h.it], h.le⟩
  | restart xs =>
    rw [opClock_restart]
    exact ⟨rfl, by simp [opAdv, h.it], le_refl _⟩

theorem clockOK_init (p : RParams ℝ) (k0 : ℝ) (x0 : List ℝ) :
    ClockOK p (opClock (rInit p k0).clock (.step x0)) 0 := by
  simp [opClock, Clock.tick, rInit]
  exact ⟨rfl, by simp, le_refl _⟩

/-! ## staged force-constant schedule -/

theorem stageLambda_zero (p : RParams ℝ) :
    stageLambda p 0 = if p.lambdaSchedule.length ≠ 0 then p.lambdaSchedule.getD 0 0.0
                       else (if p.decoupling then 1.0 else 0.0) := by
  unfold stageLambda
  split_ifs <;> simp [lit_zero]

/-- stage and force constant after a staged force-constant update -/
theorem kmu_staged (p : RParams ℝ) (c : Clock) (s : RState ℝ) (xs : List ℝ)
    (hc : p.chgK = true) (hs : p.nstages ≠ 0) :
    (kMovingUpdate p c s xs).stage =
      (if (((decide (c.stepRelative = 0) && decide (c.it > p.firstStep)) || c.cont) = false ∧
            Int.tmod (c.it - p.firstStep) p.nsteps = 0 ∧ c.it > p.firstStep) ∧ s.stage < p.nstages
        then s.stage + 1 else s.stage) ∧
    (kMovingUpdate p c s xs).k =
      (if (((decide (c.stepRelative = 0) && decide (c.it > p.firstStep)) || c.cont) = false ∧
            Int.tmod (c.it - p.firstStep) p.nsteps = 0 ∧ c.it > p.firstStep) ∧ s.stage < p.nstages
        then kOfLambda p (stageLambda p (s.stage + 1))
        else if c.it = p.firstStep then kOfLambda p (stageLambda p 0) else s.k) := by
  rw [stageLambda_zero]
  unfold kMovingUpdate
  simp only [hc, hs, ne_eq, not_false_eq_true, if_true, Bool.not_true, Bool.false_eq_true, if_false]
  generalize ((decide (c.stepRelative = 0) && decide (c.it > p.firstStep)) || c.cont) = rep
  by_cases h0 : c.it = p.firstStep
  · have hgt : ¬ c.it > p.firstStep := by omega
    simp only [if_pos h0, hgt, and_false, false_and, if_false]
    split_ifs <;> exact ⟨rfl, rfl⟩
  · simp only [h0, if_false]
    by_cases hadv : rep = false ∧ Int.tmod (c.it - p.firstStep) p.nsteps = 0 ∧ c.it > p.firstStep
    · simp only [hadv, true_and, and_self, if_true]
      split_ifs <;> exact ⟨rfl, rfl⟩
    · simp only [hadv, false_and, if_false]
      split_ifs <;> exact ⟨rfl, rfl⟩

theorem cmu_none (p : RParams ℝ) (c : Clock) (s : RState ℝ) (h : p.targetCenters = none) :
    centersMovingUpdate p c s = s := by
  unfold centersMovingUpdate; rw [h]

theorem preK_none (p : RParams ℝ) (c : Clock) (s : RState ℝ) (h : p.targetCenters = none) :
    preK p c s = s := by
  unfold preK; rw [cmu_none p c s h]; exact ite_self _

theorem opPre_stage (p : RParams ℝ) (s : RState ℝ) (op : ROp ℝ) : (opPre p s op).stage = s.stage := by
  cases op <;> rfl
theorem opPre_k (p : RParams ℝ) (s : RState ℝ) (op : ROp ℝ) : (opPre p s op).k = s.k := by
  cases op <;> rfl
theorem opPre_centers (p : RParams ℝ) (s : RState ℝ) (op : ROp ℝ) : (opPre p s op).centers = s.centers := by
  cases op <;> rfl

/-- the "repeated step" flag and the clock readings, per kind of operation -/
theorem rep_step {p : RParams ℝ} {c : Clock} {T : Int} (h : ClockOK p c T) (xs : List ℝ) :
    (opClock c (.step xs)).stepRelative > 0 ∧ (opClock c (.step xs)).cont = false := by
  rw [opClock_step h.first]
  have := h.le
  simp only [Clock.stepRelative]
  exact ⟨by omega, trivial⟩

theorem rep_cont {p : RParams ℝ} {c : Clock} {T : Int} (h : ClockOK p c T) (xs : List ℝ) :
    (opClock c (.cont xs)).cont = true := by
  rw [opClock_cont h.first]

theorem rep_restart (c : Clock) (xs : List ℝ) :
    (opClock c (.restart xs)).stepRelative = 0 ∧ (opClock c (.restart xs)).cont = false := by
  rw [opClock_restart]
  simp [Clock.stepRelative]

structure KInv (p : RParams ℝ) (r : RRun ℝ) (T : Int) : Prop where
  clock : ClockOK p r.clock T
  stage : r.s.stage = min (T / p.nsteps) p.nstages
  k : r.s.k = kOfLambda p (stageLambda p r.s.stage)

theorem kInv_step (p : RParams ℝ) (hc : p.chgK = true) (hn : 0 < p.nsteps) (hs : 0 < p.nstages)
    (htc : p.targetCenters = none) (r : RRun ℝ) (T : Int) (op : ROp ℝ) (hT : 0 ≤ T) (h : KInv p r T) :
    KInv p (rApply p r op) (T + (opAdv op : Int)) := by
  have hck := clockOK_op h.clock op
  have hS := kmu_staged p (opClock r.clock op) (opPre p r.s op) (opXs op) hc (ne_of_gt hs)
  rw [opPre_stage, opPre_k] at hS
  have e1 : (rApply p r op).s.stage = (kMovingUpdate p (opClock r.clock op) (opPre p r.s op) (opXs op)).stage := by
    rw [rApply_s, restraintStep_stage, preK_none _ _ _ htc]
  have e2 : (rApply p r op).s.k = (kMovingUpdate p (opClock r.clock op) (opPre p r.s op) (opXs op)).k := by
    rw [rApply_s, restraintStep_k, preK_none _ _ _ htc]
  have hit := hck.it
  have hst := h.stage
  have hk := h.k
  have fin : ∀ (c : Clock) (T' : Int), c.it = p.firstStep + T → T' = T →
      (r.s.stage = min (T' / p.nsteps) p.nstages ∧
       (if c.it = p.firstStep then kOfLambda p (stageLambda p 0) else r.s.k) =
         kOfLambda p (stageLambda p r.s.stage)) := by
    intro c T' hc' hT'
    subst hT'
    refine ⟨hst, ?_⟩
    by_cases h0 : c.it = p.firstStep
    · have hT0 : T' = 0 := by omega
      have : r.s.stage = 0 := by
        rw [hst, hT0, Int.zero_ediv]; omega
      rw [if_pos h0, this]
    · rw [if_neg h0]; exact hk
  have key : (rApply p r op).s.stage = min ((T + (opAdv op : Int)) / p.nsteps) p.nstages ∧
      (rApply p r op).s.k = kOfLambda p (stageLambda p (rApply p r op).s.stage) := by
    rw [e1, e2, hS.1, hS.2]
    cases op with
    | step xs =>
      obtain ⟨hr1, hr2⟩ := rep_step h.clock xs
      have hgt : (opClock r.clock (.step xs)).it > p.firstStep := by rw [hit]; simp [opAdv]; omega
      have hne : (opClock r.clock (.step xs)).it ≠ p.firstStep := ne_of_gt hgt
      have hrep : ((decide ((opClock r.clock (.step xs)).stepRelative = 0) &&
          decide ((opClock r.clock (.step xs)).it > p.firstStep)) || (opClock r.clock (.step xs)).cont) = false := by
        rw [hr2, decide_eq_false (ne_of_gt hr1)]; rfl
      have hsub : (opClock r.clock (.step xs)).it - p.firstStep = T + 1 := by rw [hit]; simp [opAdv]
      have hmod : Int.tmod (T + 1) p.nsteps = (T + 1) % p.nsteps :=
        Int.tmod_eq_emod_of_nonneg (by omega)
      rw [hrep, hsub, hmod]
      simp only [hgt, hne, and_true, true_and, if_false, opAdv, Nat.cast_one]
      by_cases hm : (T + 1) % p.nsteps = 0
      · rw [ediv_succ_of_dvd hn hm]
        by_cases hlt : r.s.stage < p.nstages
        · simp only [hm, hlt, and_self, if_true]
          refine ⟨?_, trivial⟩
          generalize T / p.nsteps = q at hst ⊢
          omega
        · simp only [hm, hlt, and_false, if_false]
          refine ⟨?_, hk⟩
          generalize T / p.nsteps = q at hst ⊢
          omega
      · rw [ediv_succ_of_not_dvd hn hm]
        simp only [hm, false_and, if_false]
        exact ⟨hst, hk⟩
    | cont xs =>
      have hr := rep_cont h.clock xs
      have hnadv : ¬ ((((decide ((opClock r.clock (.cont xs)).stepRelative = 0) &&
          decide ((opClock r.clock (.cont xs)).it > p.firstStep)) || (opClock r.clock (.cont xs)).cont) = false ∧
          Int.tmod ((opClock r.clock (.cont xs)).it - p.firstStep) p.nsteps = 0 ∧
          (opClock r.clock (.cont xs)).it > p.firstStep) ∧ r.s.stage < p.nstages) := by
        rw [hr, Bool.or_true]; simp
      rw [if_neg hnadv, if_neg hnadv]
      exact fin _ _ (by rw [hit]; simp [opAdv]) (by simp [opAdv])
    | restart xs =>
      obtain ⟨hr1, hr2⟩ := rep_restart r.clock xs
      have hnadv : ¬ ((((decide ((opClock r.clock (.restart xs)).stepRelative = 0) &&
          decide ((opClock r.clock (.restart xs)).it > p.firstStep)) || (opClock r.clock (.restart xs)).cont) = false ∧
          Int.tmod ((opClock r.clock (.restart xs)).it - p.firstStep) p.nsteps = 0 ∧
          (opClock r.clock (.restart xs)).it > p.firstStep) ∧ r.s.stage < p.nstages) := by
        rw [hr1, hr2]
        rintro ⟨⟨h1, -, h3⟩, -⟩
        simp [h3] at h1
      rw [if_neg hnadv, if_neg hnadv]
      exact fin _ _ (by rw [hit]; simp [opAdv]) (by simp [opAdv])
  exact ⟨by rw [rApply_clock]; exact hck, key.1, key.2⟩

theorem kInv_init (p : RParams ℝ) (hc : p.chgK = true) (hs : 0 < p.nstages)
    (htc : p.targetCenters = none) (k0 : ℝ) (x0 : List ℝ) :
    KInv p (rApply p (rInit p k0) (.step x0)) 0 := by
  have hck := clockOK_init p k0 x0
  have hS := kmu_staged p (opClock (rInit p k0).clock (.step x0)) (rInit p k0).s x0 hc (ne_of_gt hs)
  have hit := hck.it
  have hnadv : ¬ ((((decide ((opClock (rInit p k0).clock (.step x0)).stepRelative = 0) &&
      decide ((opClock (rInit p k0).clock (.step x0)).it > p.firstStep)) ||
        (opClock (rInit p k0).clock (.step x0)).cont) = false ∧
      Int.tmod ((opClock (rInit p k0).clock (.step x0)).it - p.firstStep) p.nsteps = 0 ∧
      (opClock (rInit p k0).clock (.step x0)).it > p.firstStep) ∧ (rInit p k0).s.stage < p.nstages) := by
    rintro ⟨⟨-, -, h3⟩, -⟩; omega
  rw [if_neg hnadv, if_neg hnadv, if_pos (by omega)] at hS
  have e1 : (rApply p (rInit p k0) (.step x0)).s.stage = 0 := by
    rw [rApply_s, restraintStep_stage, preK_none _ _ _ htc]; exact hS.1
  have e2 : (rApply p (rInit p k0) (.step x0)).s.k = kOfLambda p (stageLambda p 0) := by
    rw [rApply_s, restraintStep_k, preK_none _ _ _ htc]; exact hS.2
  refine ⟨by rw [rApply_clock]; exact hck, ?_, ?_⟩
  · rw [e1, Int.zero_ediv]; omega
  · rw [e2, e1]

theorem kStaged_run (p : RParams ℝ) (k0 : ℝ) (x0 : List ℝ) (ops : List (ROp ℝ))
    (hc : p.chgK = true) (hn : 0 < p.nsteps) (hs : 0 < p.nstages) (htc : p.targetCenters = none) :
    KInv p (rRun p (rInit p k0) (ROp.step x0 :: ops)) (advN ops : Int) := by
  rw [rRun_cons]
  have h := rRun_induct p (KInv p) (kInv_step p hc hn hs htc) ops _ 0 le_rfl
    (kInv_init p hc hs htc k0 x0)
  simpa using h

/-! ### staged moving centres -/

theorem ceil_succ_of_one {T n : Int} (hn : 1 < n) (h : (T + 1) % n = 1) :
    (T + 1 + n - 1) / n = (T + n - 1) / n + 1 := by
  have hn0 : 0 < n := by omega
  have h1 := Int.mul_ediv_add_emod (T + 1) n
  rw [h] at h1
  set q := (T + 1) / n with hq
  have hT : T = n * q := by linarith
  have e1 : T + 1 + n - 1 = n * (q + 1) := by rw [hT]; ring
  have e2 : (T + n - 1) / n = q :=
    ((Int.ediv_emod_unique (r := n - 1) hn0).2 ⟨by rw [hT]; ring, by omega, by omega⟩).1
  rw [e1, e2, Int.mul_ediv_cancel_left _ (ne_of_gt hn0)]

theorem ceil_succ_of_ne_one {T n : Int} (hn : 1 < n) (h : (T + 1) % n ≠ 1) :
    (T + 1 + n - 1) / n = (T + n - 1) / n := by
  have hn0 : 0 < n := by omega
  have e : T + 1 + n - 1 = (T + n - 1) + 1 := by ring
  rw [e]
  apply ediv_succ_of_not_dvd hn0
  intro h0
  apply h
  have e' : T + n - 1 + 1 = T + 1 * n := by ring
  rw [e', Int.add_mul_emod_self_right] at h0
  have h1 := Int.mul_ediv_add_emod T n
  rw [h0] at h1
  have hT : T + 1 = 1 + n * (T / n) := by linarith
  rw [hT, Int.add_mul_emod_self_left]
  exact Int.emod_eq_of_lt (by omega) hn

noncomputable def stagedCenters (p : RParams ℝ) (tgt : List ℝ) (st : Int) : List ℝ :=
  List.zipWith (fun (pc : Option ℝ × ℝ) x => wrapVar pc.1 pc.2 x) (p.per.zip p.wrapC)
    (List.zipWith (fun c0 c1 => lerpS c0 c1 ((st : ℝ) / (p.nstages : ℝ))) p.centers0 tgt)

theorem cmu_staged (p : RParams ℝ) (c : Clock) (s : RState ℝ) (tgt : List ℝ)
    (ht : p.targetCenters = some tgt) (hs : p.nstages ≠ 0) :
    (centersMovingUpdate p c s).stage =
      (if s.stage ≤ p.nstages ∧ c.stepRelative > 0 ∧ c.cont = false ∧
          Int.tmod (c.it - p.firstStep) p.nsteps = 1 then s.stage + 1 else s.stage) ∧
    (centersMovingUpdate p c s).centers =
      (if s.stage ≤ p.nstages ∧ c.stepRelative > 0 ∧ c.cont = false ∧
          Int.tmod (c.it - p.firstStep) p.nsteps = 1 then stagedCenters p tgt s.stage else s.centers) := by
  unfold centersMovingUpdate
  simp only [ht, hs, ne_eq, not_false_eq_true, if_true]
  by_cases h1 : s.stage ≤ p.nstages
  · by_cases h2 : c.stepRelative > 0 ∧ c.cont = false ∧ Int.tmod (c.it - p.firstStep) p.nsteps = 1
    · simp only [h1, h2, and_self, if_true]
      split_ifs <;> exact ⟨rfl, rfl⟩
    · simp only [h1, h2, and_false, if_true, if_false]
      split_ifs <;> exact ⟨rfl, rfl⟩
  · simp only [h1, false_and, if_false]
    split_ifs <;> exact ⟨rfl, rfl⟩

theorem kmu_off (p : RParams ℝ) (c : Clock) (s : RState ℝ) (xs : List ℝ) (h : p.chgK = false) :
    kMovingUpdate p c s xs = s := by
  unfold kMovingUpdate; simp [h]

theorem preK_not_walls (p : RParams ℝ) (c : Clock) (s : RState ℝ) (h : p.kind ≠ .walls) :
    preK p c s = centersMovingUpdate p c s := by
  unfold preK; rw [if_neg h]

structure CInv (p : RParams ℝ) (tgt : List ℝ) (r : RRun ℝ) (T : Int) : Prop where
  clock : ClockOK p r.clock T
  stage : r.s.stage = min ((T + p.nsteps - 1) / p.nsteps) (p.nstages + 1)
  centers : 1 ≤ r.s.stage → r.s.centers = stagedCenters p tgt (r.s.stage - 1)

theorem cInv_step (p : RParams ℝ) (tgt : List ℝ) (ht : p.targetCenters = some tgt) (hk : p.kind ≠ .walls)
    (hck : p.chgK = false) (hn : 1 < p.nsteps) (hs : 0 < p.nstages)
    (r : RRun ℝ) (T : Int) (op : ROp ℝ) (hT : 0 ≤ T) (h : CInv p tgt r T) :
    CInv p tgt (rApply p r op) (T + (opAdv op : Int)) := by
  have hcl := clockOK_op h.clock op
  have hS := cmu_staged p (opClock r.clock op) (opPre p r.s op) tgt ht (ne_of_gt hs)
  rw [opPre_stage, opPre_centers] at hS
  have e1 : (rApply p r op).s.stage = (centersMovingUpdate p (opClock r.clock op) (opPre p r.s op)).stage := by
    rw [rApply_s, restraintStep_stage, kmu_off _ _ _ _ hck, preK_not_walls _ _ _ hk]
  have e2 : (rApply p r op).s.centers = (centersMovingUpdate p (opClock r.clock op) (opPre p r.s op)).centers := by
    rw [rApply_s, restraintStep_centers, kmu_off _ _ _ _ hck, preK_not_walls _ _ _ hk]
  have hit := hcl.it
  have hst := h.stage
  have hcen := h.centers
  have key : (rApply p r op).s.stage = min ((T + (opAdv op : Int) + p.nsteps - 1) / p.nsteps) (p.nstages + 1) ∧
      (1 ≤ (rApply p r op).s.stage →
        (rApply p r op).s.centers = stagedCenters p tgt ((rApply p r op).s.stage - 1)) := by
    rw [e1, e2, hS.1, hS.2]
    cases op with
    | step xs =>
      obtain ⟨hr1, hr2⟩ := rep_step h.clock xs
      have hsub : (opClock r.clock (.step xs)).it - p.firstStep = T + 1 := by rw [hit]; simp [opAdv]
      have hmod : Int.tmod (T + 1) p.nsteps = (T + 1) % p.nsteps :=
        Int.tmod_eq_emod_of_nonneg (by omega)
      rw [hsub, hmod]
      simp only [hr1, hr2, true_and, opAdv, Nat.cast_one]
      by_cases hm : (T + 1) % p.nsteps = 1
      · rw [ceil_succ_of_one hn hm]
        by_cases hle : r.s.stage ≤ p.nstages
        · simp only [hm, hle, and_self, if_true]
          refine ⟨?_, fun _ => by rw [add_sub_cancel_right]⟩
          generalize (T + p.nsteps - 1) / p.nsteps = q at hst ⊢
          omega
        · simp only [hm, hle, false_and, if_false]
          refine ⟨?_, hcen⟩
          generalize (T + p.nsteps - 1) / p.nsteps = q at hst ⊢
          omega
      · rw [ceil_succ_of_ne_one hn hm]
        simp only [hm, and_false, if_false]
        exact ⟨hst, hcen⟩
    | cont xs =>
      have hr := rep_cont h.clock xs
      simp only [hr, Bool.true_eq_false, false_and, and_false, if_false, opAdv, Nat.cast_zero, add_zero]
      exact ⟨hst, hcen⟩
    | restart xs =>
      obtain ⟨hr1, hr2⟩ := rep_restart r.clock xs
      simp only [hr1, gt_iff_lt, lt_irrefl, false_and, and_false, if_false, opAdv, Nat.cast_zero, add_zero]
      exact ⟨hst, hcen⟩
  exact ⟨by rw [rApply_clock]; exact hcl, key.1, key.2⟩

theorem cInv_init (p : RParams ℝ) (tgt : List ℝ) (ht : p.targetCenters = some tgt) (hk : p.kind ≠ .walls)
    (hck : p.chgK = false) (hn : 1 < p.nsteps) (hs : 0 < p.nstages) (k0 : ℝ) (x0 : List ℝ) :
    CInv p tgt (rApply p (rInit p k0) (.step x0)) 0 := by
  have hcl := clockOK_init p k0 x0
  have hS := cmu_staged p (opClock (rInit p k0).clock (.step x0)) (rInit p k0).s tgt ht (ne_of_gt hs)
  have hsr : (opClock (rInit p k0).clock (.step x0)).stepRelative = 0 := by
    simp [opClock, Clock.tick, rInit, Clock.stepRelative]
  simp only [hsr, gt_iff_lt, lt_irrefl, false_and, and_false, if_false] at hS
  have e1 : (rApply p (rInit p k0) (.step x0)).s.stage = 0 := by
    rw [rApply_s, restraintStep_stage, kmu_off _ _ _ _ hck, preK_not_walls _ _ _ hk]; exact hS.1
  refine ⟨by rw [rApply_clock]; exact hcl, ?_, ?_⟩
  · rw [e1, zero_add, Int.ediv_eq_zero_of_lt (by omega) (by omega)]; omega
  · rw [e1]; intro h; omega

theorem cStaged_run (p : RParams ℝ) (k0 : ℝ) (x0 : List ℝ) (ops : List (ROp ℝ)) (tgt : List ℝ)
    (ht : p.targetCenters = some tgt) (hk : p.kind ≠ .walls) (hck : p.chgK = false)
    (hn : 1 < p.nsteps) (hs : 0 < p.nstages) :
    CInv p tgt (rRun p (rInit p k0) (ROp.step x0 :: ops)) (advN ops : Int) := by
  rw [rRun_cons]
  have h := rRun_induct p (CInv p tgt) (cInv_step p tgt ht hk hck hn hs) ops _ 0 le_rfl
    (cInv_init p tgt ht hk hck hn hs k0 x0)
  simpa using h

theorem ceil_eq {T n : Int} (hn : 0 < n) : (T + n - 1) / n = (T - 1) / n + 1 := by
  have e : T + n - 1 = (T - 1) + 1 * n := by ring
  rw [e, Int.add_mul_ediv_right _ _ (ne_of_gt hn)]

/-! ## lists: folds as sums, one replaced entry, sums of squared deviations -/

theorem foldl_add_map_real {β : Type} (f : β → ℝ) (l : List β) (a : ℝ) :
    l.foldl (fun s v => s + f v) a = a + (l.map f).sum := by
  induction l generalizing a with
  | nil => simp
  | cons y l ih => simp [ih, add_assoc]

/-- replacing the `j`-th entry of a list by `y`: the sum of `f` over the list depends on `y` only through `f y` -/
theorem hasDerivAt_sum_map_set (f : ℝ → ℝ) (f' y0 : ℝ) (hf : HasDerivAt f f' y0) (xs : List ℝ) (j : Nat)
    (hj : j < xs.length) :
    HasDerivAt (fun y => ((xs.set j y).map f).sum) f' y0 := by
  induction xs generalizing j with
  | nil => simp at hj
  | cons x xs ih =>
    cases j with
    | zero =>
      simp only [List.set_cons_zero, List.map_cons, List.sum_cons]
      exact hf.add_const _
    | succ j =>
      simp only [List.set_cons_succ, List.map_cons, List.sum_cons]
      exact (ih j (by simpa using hj)).const_add _

/-- derivative of a sum of squared deviations of `h i y` from reference values -/
theorem hasDerivAt_sum_sq_zipWith {ι : Type} (h : ι → ℝ → ℝ) (h' : ι → ℝ) (y0 : ℝ)
    (hh : ∀ i, HasDerivAt (h i) (h' i) y0) (is : List ι) (ref : List ℝ) :
    HasDerivAt (fun y => ((List.zipWith (· - ·) (is.map fun i => h i y) ref).map (fun v => v * v)).sum)
      ((List.zipWith (fun i r => 2 * (h i y0 - r) * h' i) is ref).sum) y0 := by
  induction is generalizing ref with
  | nil => simpa using hasDerivAt_const y0 (0 : ℝ)
  | cons i is ih =>
    cases ref with
    | nil => simpa using hasDerivAt_const y0 (0 : ℝ)
    | cons r ref =>
      simp only [List.map_cons, List.zipWith_cons_cons, List.sum_cons]
      have h1 : HasDerivAt (fun y => h i y - r) (h' i) y0 := (hh i).sub_const r
      refine ((h1.mul h1).add (ih ref)).congr_deriv ?_
      ring

/-- a sum over `range n` of terms that read the `i`-th deviation by index, as a `zipWith` sum -/
theorem map_range_getD_zipWith (H : Nat → ℝ) (F : ℝ → Nat → ℝ) (ref : List ℝ) (n : Nat) (hr : ref.length = n) :
    (List.range n).map (fun i => F ((List.zipWith (· - ·) ((List.range n).map H) ref).getD i 0) i) =
      List.zipWith (fun i r => F (H i - r) i) (List.range n) ref := by
  apply List.ext_getElem
  · simp [hr]
  · intro i h1 h2
    have hi : i < n := by simpa using h1
    simp [List.getD_eq_getElem?_getD, hi, hr]


theorem zipWith_sum_const_mul {ι : Type} (f g : ι → ℝ → ℝ) (c : ℝ) (h : ∀ i r, g i r = c * f i r)
    (l1 : List ι) (l2 : List ℝ) : (List.zipWith g l1 l2).sum = c * (List.zipWith f l1 l2).sum := by
  induction l1 generalizing l2 with
  | nil => simp
  | cons i l1 ih =>
    cases l2 with
    | nil => simp
    | cons r l2 => simp only [List.zipWith_cons_cons, List.sum_cons, ih, h]; ring

end Cv.C06
