import CvModel.Parse
/-!
# C09 — helper lemmas about the parser model (`CvModel/Parse.lean`)
-/
open Cv Cv.Parse

namespace Cv.C09

/-! ## `lower` -/

theorem lowerC_upper_aux : ∀ n, n < 91 → 65 ≤ n →
    ¬ ('A' ≤ Char.ofNat (n + 32) ∧ Char.ofNat (n + 32) ≤ 'Z') := by
  decide

theorem lowerC_idem (c : Char) : lowerC (lowerC c) = lowerC c := by
  unfold lowerC
  by_cases h : 'A' ≤ c ∧ c ≤ 'Z'
  · rw [if_pos h]
    have h1 : 65 ≤ c.toNat := h.1
    have h2 : c.toNat ≤ 90 := h.2
    rw [if_neg (lowerC_upper_aux c.toNat (by omega) h1)]
  · rw [if_neg h, if_neg h]

theorem lower_idem' (s : Str) : lower (lower s) = lower s := by
  unfold lower
  rw [List.map_map]
  apply List.map_congr_left
  intro c _
  exact lowerC_idem c

theorem lower_length' (s : Str) : (lower s).length = s.length := by
  unfold lower; exact List.length_map _

/-! ## `findFrom` -/

theorem findFrom_spec {s pat : Str} {p i : Nat} (h : findFrom s pat p = some i) :
    p ≤ i ∧ i + pat.length ≤ s.length ∧ (s.drop i).take pat.length = pat := by
  unfold findFrom at h
  simp only at h
  split at h
  · cases h
  · obtain ⟨k, _, hk⟩ := List.exists_of_findSome?_eq_some h
    split at hk
    · rename_i hc
      cases hk
      exact ⟨Nat.le_add_right _ _, hc.1, hc.2⟩
    · cases hk

/-! ## the search loop -/

theorem searchKey_ne_none (conf cl key : Str) (hk : key ≠ []) :
    ∀ fuel pos, pos ≤ cl.length → cl.length + 1 < fuel + pos →
      searchKey conf cl key fuel (some pos) ≠ none := by
  have hm : 0 < key.length := List.length_pos_iff.mpr hk
  intro fuel
  induction fuel with
  | zero => intro pos h1 h2; omega
  | succ fuel ih =>
    intro pos h1 h2
    rw [searchKey]
    split
    · simp
    · cases hf : findFrom cl key (pos + key.length) with
      | none =>
        cases fuel with
        | zero => omega
        | succ f => simp [searchKey]
      | some q =>
        obtain ⟨a, b, _⟩ := findFrom_spec hf
        exact ih q (by omega) (by omega)

/-- an occurrence of `key` in `cl` at `q` -/
def Occ (cl key : Str) (q : Nat) : Prop :=
  q + key.length ≤ cl.length ∧ (cl.drop q).take key.length = key

theorem searchKey_found (conf cl key : Str) :
    ∀ fuel (o : Option Nat) (p : Nat), (∀ q, o = some q → Occ cl key q) →
      searchKey conf cl key fuel o = some (some p) →
      isolated conf cl key p = true ∧ Occ cl key p := by
  intro fuel
  induction fuel with
  | zero => intro o p _ h; simp [searchKey] at h
  | succ fuel ih =>
    intro o p ho h
    cases o with
    | none => simp [searchKey] at h
    | some pos =>
      rw [searchKey] at h
      split at h
      · rename_i hi
        cases h
        exact ⟨hi, ho _ rfl⟩
      · apply ih _ p _ h
        intro q hq
        obtain ⟨_, b, c⟩ := findFrom_spec hq
        exact ⟨b, c⟩

theorem isolated_checkBraces {conf cl key : Str} {p : Nat} (h : isolated conf cl key p = true) :
    checkBraces conf p = true := by
  unfold isolated at h
  simp only [Bool.and_eq_true] at h
  exact h.2

theorem isolated_left {conf cl key : Str} {p : Nat} (hp : 0 < p) (hlt : p - 1 < conf.length)
    (h : isolated conf cl key p = true) :
    ∃ c, conf[p - 1]? = some c ∧ delimLeft.contains c = true := by
  unfold isolated at h
  simp only [Bool.and_eq_true] at h
  have hl := h.1.1
  rw [if_pos hp] at hl
  cases hc : conf[p - 1]? with
  | none =>
    rw [List.getElem?_eq_none_iff] at hc
    omega
  | some c =>
    refine ⟨c, rfl, ?_⟩
    rw [hc] at hl
    simp only at hl
    cases hd : delimLeft.contains c with
    | true => rfl
    | false => rw [hd] at hl; simp at hl

/-! ## value extraction -/

theorem extractData_cases (conf key : Str) (pos fuel : Nat) :
    extractData conf key pos fuel = .parseError ∨
    ∃ d s, extractData conf key pos fuel = .found pos d s := by
  unfold extractData
  simp only
  repeat' split
  all_goals first
    | exact Or.inl rfl
    | exact Or.inr ⟨_, _, rfl⟩

/-! ## the lookup -/

theorem keyLookup_found {conf key : Str} {start p : Nat} {d : Str} {s : Nat}
    (h : keyLookup conf key start = .found p d s) :
    isolated conf (lower conf) (lower key) p = true ∧ Occ (lower conf) (lower key) p := by
  unfold keyLookup at h
  simp only at h
  split at h
  · cases h
  · cases h
  · rename_i pos hs
    have hp : pos = p := by
      rcases extractData_cases conf (lower key) pos (conf.length + 2) with he | ⟨d', s', he⟩
      · rw [he] at h; cases h
      · rw [he] at h; cases h; rfl
    subst hp
    refine searchKey_found conf (lower conf) (lower key) _ _ _ ?_ hs
    intro q hq
    obtain ⟨_, b, c⟩ := findFrom_spec hq
    exact ⟨b, c⟩

/-! ## braces -/

def countC' (c : Char) (s : Str) : Nat := (s.filter (· = c)).length

theorem foldl_brace (l : Str) : ∀ n : Int,
    l.foldl (fun (n : Int) c => if c = '{' then n + 1 else if c = '}' then n - 1 else n) n
      = n + (countC' '{' l : Int) - (countC' '}' l : Int) := by
  induction l with
  | nil => intro n; simp [countC']
  | cons c l ih =>
    intro n
    rw [List.foldl_cons, ih]
    unfold countC'
    by_cases h1 : c = '{'
    · subst h1
      simp
      omega
    · by_cases h2 : c = '}'
      · subst h2
        simp
        omega
      · simp [h1, h2]

theorem checkBraces_iff' (conf : Str) (start : Nat) :
    checkBraces conf start = true ↔
      countC' '{' (conf.drop start) = countC' '}' (conf.drop start) := by
  unfold checkBraces
  simp only [foldl_brace, beq_iff_eq]
  omega

theorem countC'_append (c : Char) (a b : Str) : countC' c (a ++ b) = countC' c a + countC' c b := by
  simp [countC']

/-! ## comments -/

theorem stripComment_append_hash (a t : Str) (ha : '#' ∉ a) : stripComment (a ++ '#' :: t) = a := by
  unfold stripComment
  induction a with
  | nil => simp
  | cons c a ih =>
    have hc : c ≠ '#' := fun h => ha (by simp [h])
    have ha' : '#' ∉ a := fun h => ha (List.mem_cons_of_mem _ h)
    rw [List.cons_append, List.takeWhile_cons, if_pos (by simpa using hc), ih ha']

theorem stripComment_no_hash' (line : Str) : '#' ∉ stripComment line := by
  unfold stripComment
  induction line with
  | nil => simp
  | cons c l ih =>
    rw [List.takeWhile_cons]
    by_cases hc : c = '#'
    · simp [hc]
    · rw [if_pos (by simpa using hc)]
      intro h
      rcases List.mem_cons.mp h with h | h
      · exact hc h.symm
      · exact ih h

theorem stripComment_of_no_hash (a : Str) (ha : '#' ∉ a) : stripComment a = a := by
  unfold stripComment
  induction a with
  | nil => simp
  | cons c a ih =>
    have hc : c ≠ '#' := fun h => ha (by simp [h])
    have ha' : '#' ∉ a := fun h => ha (List.mem_cons_of_mem _ h)
    rw [List.takeWhile_cons, if_pos (by simpa using hc), ih ha']

end Cv.C09
