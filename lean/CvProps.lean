import CvModel
