#!/usr/bin/env python3
"""Build everything a check needs, from /repo's current working tree.

  build_lib(variant)     cmake+ninja out-of-tree build of /repo/cmake with -DCOLVARS_VERIF
  build_harness(variant) link /verif/harness/*.cpp against that library
  build_lean()           translators (tables from /repo/src) + lake build (models, proofs, driver)

All output goes under /verif/.cache (ignored by git).  A lock serialises concurrent checks.
"""
import fcntl, hashlib, os, subprocess, sys, time, glob, shutil

VERIF = os.path.dirname(os.path.dirname(os.path.abspath(__file__)))
REPO = os.environ.get("VERIF_REPO", "/repo")
CACHE = os.path.join(VERIF, ".cache")
LEAN = os.path.join(VERIF, "lean")
GUARD = "COLVARS_VERIF"

VARIANTS = {
    "rel": {"type": "RelWithDebInfo", "flags": "-D%s" % GUARD, "openmp": "ON"},
    "asan": {"type": "Debug",
             "flags": "-D%s -O1 -g -fsanitize=address,undefined -fno-sanitize-recover=all -fno-omit-frame-pointer" % GUARD,
             "openmp": "OFF"},
    # real threads (std::thread in the harness proxy's smp loops) under ThreadSanitizer; no OpenMP runtime involved
    "tsan": {"type": "Debug", "flags": "-D%s -O1 -g -fsanitize=thread -fno-omit-frame-pointer" % GUARD, "openmp": "OFF"},
}


class BuildError(Exception):
    pass


def run(cmd, cwd=None, env=None, timeout=3600):
    p = subprocess.run(cmd, cwd=cwd, env=env, stdout=subprocess.PIPE, stderr=subprocess.STDOUT,
                       text=True, timeout=timeout)
    return p.returncode, p.stdout


class Lock:
    def __init__(self, name="build"):
        os.makedirs(CACHE, exist_ok=True)
        self.path = os.path.join(CACHE, name + ".lock")

    def __enter__(self):
        self.f = open(self.path, "w")
        fcntl.flock(self.f, fcntl.LOCK_EX)
        return self

    def __exit__(self, *a):
        fcntl.flock(self.f, fcntl.LOCK_UN)
        self.f.close()


def build_lib(variant="rel"):
    v = VARIANTS[variant]
    bdir = os.path.join(CACHE, "build-" + variant)
    with Lock("lib-" + variant):
        if not os.path.exists(os.path.join(bdir, "build.ninja")):
            os.makedirs(bdir, exist_ok=True)
            rc, out = run(["cmake", "-G", "Ninja", "-S", os.path.join(REPO, "cmake"), "-B", bdir,
                           "-DCMAKE_BUILD_TYPE=" + v["type"], "-DCMAKE_CXX_FLAGS=" + v["flags"],
                           "-DBUILD_TESTS=OFF", "-DBUILD_TOOLS=OFF", "-DBUILD_UNITTESTS=OFF",
                           "-DCOLVARS_LEPTON=OFF", "-DCOLVARS_TCL=OFF",
                           "-DCOLVARS_OPENMP=" + v["openmp"]])
            if rc != 0:
                raise BuildError("cmake configure failed:\n" + out[-4000:])
        rc, out = run(["ninja", "-C", bdir, "colvars"])
        if rc != 0:
            raise BuildError("library build failed:\n" + out[-6000:])
    return bdir


def build_harness(variant="rel"):
    v = VARIANTS[variant]
    bdir = build_lib(variant)
    hdir = os.path.join(VERIF, "harness")
    exe = os.path.join(CACHE, "cvharness-" + variant)
    srcs = sorted(glob.glob(os.path.join(hdir, "*.cpp")))
    deps = srcs + glob.glob(os.path.join(hdir, "*.h")) + [os.path.join(bdir, "libcolvars.a")] + \
        glob.glob(os.path.join(REPO, "src", "*.h"))
    with Lock("harness-" + variant):
        if os.path.exists(exe):
            t = os.path.getmtime(exe)
            if all(os.path.getmtime(d) <= t for d in deps):
                return exe
        objs = []
        procs = []
        odir = os.path.join(CACHE, "hobj-" + variant)
        os.makedirs(odir, exist_ok=True)
        opt = "-O2 -g" if variant == "rel" else ""
        omp = "-fopenmp" if v["openmp"] == "ON" else ""
        for s in srcs:
            o = os.path.join(odir, os.path.basename(s)[:-4] + ".o")
            objs.append(o)
            if os.path.exists(o) and all(os.path.getmtime(d) <= os.path.getmtime(o)
                                         for d in [s] + deps[len(srcs):] if not d.endswith(".a")):
                continue
            cmd = ["g++", "-std=c++17"] + v["flags"].split() + opt.split() + omp.split() + \
                  ["-fno-access-control", "-I" + os.path.join(REPO, "src"), "-I" + hdir, "-c", s, "-o", o]
            procs.append((s, subprocess.Popen(cmd, stdout=subprocess.PIPE, stderr=subprocess.STDOUT, text=True)))
        for s, p in procs:
            out, _ = p.communicate()
            if p.returncode != 0:
                raise BuildError("harness compile failed (%s):\n%s" % (s, out[-6000:]))
        cmd = ["g++"] + v["flags"].split() + omp.split() + objs + [os.path.join(bdir, "libcolvars.a"), "-ldl", "-o", exe]
        rc, out = run(cmd)
        if rc != 0:
            raise BuildError("harness link failed:\n" + out[-6000:])
    return exe


def run_translators():
    """Regenerate model tables from /repo/src (C13 feature tables, C20 command table)."""
    tdir = os.path.join(VERIF, "tools")
    msgs = []
    for t in sorted(glob.glob(os.path.join(tdir, "translate_*.py"))):
        rc, out = run([sys.executable, t])
        if rc != 0:
            raise BuildError("translator %s failed:\n%s" % (os.path.basename(t), out[-4000:]))
        msgs.append(out.strip())
    return msgs


def build_lean(targets=None):
    with Lock("lean"):
        msgs = run_translators()
        cmd = ["lake", "build"] + (targets or [])
        rc, out = run(cmd, cwd=LEAN, timeout=7200)
        return rc, out, msgs


def driver_exe():
    return os.path.join(LEAN, ".lake", "build", "bin", "cvdriver")


if __name__ == "__main__":
    t0 = time.time()
    what = sys.argv[1:] or ["lib", "harness", "lean"]
    try:
        if "lib" in what:
            print("lib:", build_lib("rel"))
        if "harness" in what:
            print("harness:", build_harness("rel"))
        if "asan" in what:
            print("harness-asan:", build_harness("asan"))
        if "lean" in what:
            rc, out, msgs = build_lean()
            print(out[-3000:])
            if rc != 0:
                sys.exit(1)
    except BuildError as e:
        print(str(e))
        sys.exit(1)
    print("build ok in %.1fs" % (time.time() - t0))
