#!/usr/bin/env python3
"""Apply every seeded change under /verif/seeded to /repo in turn, run the quick check of its property (and any extra
checks named on the command line), undo it, and record the outcome in seeded/<id>/meta.json and seeded/RESULTS.md.

usage: tools/run_seeded.py [<id> ...]        (default: all)"""
import json, os, re, subprocess, sys, time

VERIF = os.path.dirname(os.path.dirname(os.path.abspath(__file__)))
SEEDED = os.path.join(VERIF, "seeded")
REPO = os.environ.get("VERIF_REPO", "/repo")     # a scratch worktree when run under `vp run --with-repo`


def sh(cmd, **kw):
    return subprocess.run(cmd, shell=True, stdout=subprocess.PIPE, stderr=subprocess.STDOUT, text=True, **kw)


def first_paragraphs(path, n=2):
    if not os.path.exists(path):
        return ""
    txt = open(path, errors="replace").read()
    paras = [p.strip().replace("\n", " ") for p in re.split(r"\n\s*\n", txt) if p.strip() and not p.strip().startswith("#")]
    return " ".join(paras[:n])[:900]


def section(path, title_re):
    if not os.path.exists(path):
        return ""
    txt = open(path, errors="replace").read()
    m = re.search(r"^#+\s*" + title_re + r".*?$(.*?)(?=^#+\s|\Z)", txt, re.M | re.S | re.I)
    return " ".join(m.group(1).split())[:900] if m else ""


def main():
    ids = sys.argv[1:] or sorted(d for d in os.listdir(SEEDED) if os.path.isdir(os.path.join(SEEDED, d)))
    if sh("git -C %s diff --quiet" % REPO).returncode != 0:
        print(REPO + " has uncommitted changes"); return 2
    rows = []
    for sid in ids:
        d = os.path.join(SEEDED, sid)
        prop = sid.split("-")[0]
        patch = os.path.join(d, "patch.diff")
        r = sh("git -C %s apply %s" % (REPO, patch))
        if r.returncode != 0:
            rows.append((sid, prop, "patch does not apply to the current tree", "")); continue
        t0 = time.time()
        try:
            c = sh("cd %s && ./check %s --tier quick" % (VERIF, prop), timeout=3600)
            out = c.stdout; rc = c.returncode
        finally:
            sh("git -C %s checkout -- ." % REPO)
        viol = [l for l in out.splitlines() if l.startswith("VIOLATION")]
        why = [l[2:] for l in out.splitlines() if l.startswith("# ")]
        with_input = [v for v in viol if "no-failing-input-found" not in v]
        caught = rc != 0 and bool(viol)
        what = (why[0] if why else "")[:500]
        meta = {
            "property": prop,
            "breaks": section(os.path.join(d, "notes.md"), r"(why|what the change|the change)") or first_paragraphs(os.path.join(d, "notes.md")),
            "needs": section(os.path.join(d, "notes.md"), r"what it needs"),
            "confirmed": "tools/confirm_seeded.sh: patched tree builds, the 92 tests still pass (customfunction_harmonic-fixed fails as on the clean tree), "
                         "the sub-agent's demonstration exits non-zero with the patch and zero without it",
            "caught_by": ("./check %s --tier quick: exit %d, %d VIOLATION line(s), %d with a concrete failing input; first: %s"
                          % (prop, rc, len(viol), len(with_input), what)) if caught else "NOT CAUGHT by ./check %s --tier quick" % prop,
            "ran": "git -C /repo apply seeded/%s/patch.diff; ./check %s --tier quick; git -C /repo checkout -- .  (%.0f s)" % (sid, prop, time.time() - t0),
        }
        json.dump(meta, open(os.path.join(d, "meta.json"), "w"), indent=1)
        rows.append((sid, prop, "caught (%d with failing input)" % len(with_input) if caught else "NOT CAUGHT", what[:160]))
        print(sid, rows[-1][2], flush=True)
    sh("cd %s && python3 tools/cvbuild.py lib harness" % VERIF)
    allrows = []
    for sid in sorted(d for d in os.listdir(SEEDED) if os.path.isdir(os.path.join(SEEDED, d))):
        mp = os.path.join(SEEDED, sid, "meta.json")
        if not os.path.exists(mp):
            continue
        cb = json.load(open(mp)).get("caught_by", "")
        m = re.search(r"(\d+) VIOLATION line\(s\), (\d+) with a concrete failing input; first: (.*)", cb, re.S)
        if m:
            allrows.append((sid, sid.split("-")[0], "caught (%s with failing input)" % m.group(2), m.group(3)[:160].replace("\n", " ")))
        else:
            allrows.append((sid, sid.split("-")[0], cb[:60] or "not run", ""))
    with open(os.path.join(SEEDED, "RESULTS.md"), "w") as f:
        f.write("# Seeded changes against the checks (written by tools/run_seeded.py from every seeded/<id>/meta.json)\n\n| change | property | quick check | first report |\n|---|---|---|---|\n")
        for r in allrows:
            f.write("| %s | %s | %s | %s |\n" % (r[0], r[1], r[2], r[3].replace("|", "/")))
    return 0


if __name__ == "__main__":
    sys.exit(main())
