#!/usr/bin/env python3
"""cvref.py -- independent reference implementation of Colvars components.

Pure Python 3, standard library only (math; random is used by the self-test).

This module was written ONLY from the Colvars reference manual
(doc/colvars-refman-main.tex: sections "Treatment of periodic boundary
conditions", "Distances", "Angles", "Contacts", "Collective metrics",
"Rotations", "cartesian" and "Moving frame of reference", plus the figure
doc/eulerangles.pdf).  No source file, test file or tool of the library was
consulted: every formula below is the documented definition, or, where the
manual is silent, the most natural mathematical reading (see AMBIGUITIES).

API
---
    value(kind, prm, P, M, Q, cell=None)   -> float | list of floats | None
    optimal_rotation(X, Y)                 -> (q, R)
    rotate(R, v), com(atoms, P, M), cog(atoms, P), min_image(d, cell)

Optional parameters understood in `prm` beyond those listed in value():
    'centerToReference', 'rotateToReference', 'centerToOrigin' (bools) and
    'fitRefPositions' (atom-group-level reference; defaults to 'refPositions'):
    moving frame of reference of the group 'atoms'
    (x'_i = R (x_i - x^C) + x^ref).  Defaults: on/on for rmsd and eigenvector,
    off for every other component (as documented).

Module switches
---------------
    ORIENTATION_REF_TO_CURRENT  (default True)  see AMBIGUITIES (A1).
    UNDOCUMENTED_KINDS          kinds implemented although the manual does not
                                define them (from the task statement only).

AMBIGUITIES
-----------
A1. Direction of the rotation described by `orientation` (and hence the sign
    of spinAngle and the roles of eulerPhi / eulerPsi).  The manual
    contradicts itself: the introduction of the "Rotations" section says the
    variables "quantify the rotations [...] from a given set of reference
    coordinates to the current coordinates", and the note under `orientation`
    says refPositions are the positions "*from which* the optimal rotation is
    calculated"; but the first paragraph of `orientation` says the quaternion
    "expresses the optimal rotation {x_i(t)} -> {x_i^(ref)}".  Chosen: the
    rotation that takes the (centred) REFERENCE onto the (centred) CURRENT
    coordinates (two statements against one; it is also the reading under
    which "X, Y, Z = rotated frame" of the Euler-angle paragraph is the frame
    of the molecule).  Set ORIENTATION_REF_TO_CURRENT = False for the inverse
    (q -> (q0,-q1,-q2,-q3)).  rmsd, eigenvector, orientationAngle,
    orientationProj and tilt do not depend on this choice.
A2. Sign of the quaternion: q and -q are the same rotation; the manual's
    closestToQuaternion default (1,0,0,0) selects q0 >= 0.  If q0 == 0 exactly
    the first non-zero component is made positive (undocumented corner).
A3. Euler angles.  The manual names them roll/pitch/yaw (which usually
    denotes Tait-Bryan z-y'-x'' angles) but DEFINES them geometrically, with
    a figure, as proper Euler angles of the z-x'-z'' type: N = intersection
    of the planes xy and XY, phi = angle x->N (about z), psi = angle N->X
    (about Z), theta = angle from P to Z with P perpendicular to N and z,
    theta in [-90,90], singular for SMALL rotations (theta ~ 90).  The
    geometric definition was followed.  Orientation of N and P taken from the
    figure: N = (z x Z)/|z x Z|, P = N x z, so that Z = cos(theta) P +
    sin(theta) z.  With R the rotation matrix (columns X, Y, Z):
        phi = atan2(R[0][2], -R[1][2]); theta = asin(R[2][2]);
        psi = atan2(R[2][0], R[2][1]).
    This is the only reading consistent with the manual's statements
    "tilt (axis z) = sin(theta)" and "spinAngle (axis z) = phi + psi".
    When Z is parallel to z the angles phi, psi are undefined; atan2(0,0)=0
    is returned.
A4. spinAngle / tilt.  Not given as formulas.  Used the swing-twist
    decomposition q = q_tilt * q_spin with q_spin a rotation about e:
        spinAngle = 2 atan2(q_vec . e, q0) wrapped to [-180,180] degrees,
        tilt      = e . (R e) = 2 (q0^2 + (q_vec . e)^2) - 1.
    (One sentence of the manual loosely calls tilt "the dot product between e
    and the actual axis of the full rotation"; the formal definition, "cosine
    of the angle of the tilt sub-rotation", 1 = parallel, -1 = anti-parallel,
    equal to sin(theta_Euler) for e = z, was followed.)
A5. orientationAngle = 2 acos(|q0|) in [0,180] degrees; orientationProj =
    cos(angle) = 2 q0^2 - 1 (documented only in words).
A6. angle: taken as the angle at group2 between (group1 - group2) and
    (group3 - group2) (the manual only says "angle between three groups").
A7. dihedral: sign convention not stated; IUPAC convention used
    (b1 = r2-r1, b2 = r3-r2, b3 = r4-r3,
     phi = atan2(|b2| b1.(b2 x b3), (b1 x b2).(b2 x b3))).
A8. dipoleAngle / dipoleMagnitude: the dipole is not defined by a formula.
    Used mu = sum_i q_i (x_i - x_com(group)) (independent of the origin for a
    neutral group; for a charged group the choice of COM as origin is a
    guess).  dipoleAngle = angle between mu(group1) and the vector
    COM(group3) - COM(group2) (direction group2 -> group3 is a guess).
A9. distanceVec / distanceDir: direction taken as COM(group2) - COM(group1)
    ("vector joining the centers of mass of group1 and group2").
A10. distanceZ with ref2 under PBC: the manual gives r_m = (r1+r2)/2 and
    value e.(r - r_m) without saying which differences are minimum-image.
    Used d12 = min_image(r2 - r1), e = d12/|d12|, r_m = r1 + d12/2,
    value = e . min_image(r - r_m).
    distanceXY: norm of the component of min_image(r - r1) orthogonal to e
    (the manual says "distance vector between main and ref" in both variants).
A11. cutoff3 (anisotropic cutoff): "three different cutoffs d0 for each
    direction" read as (d/d0)^2 := (dx/d0x)^2 + (dy/d0y)^2 + (dz/d0z)^2.
    The removable singularity of the switching function at d = d0 is filled
    with its limit n/m (stated by the manual).  `tolerance`/pair lists
    (default 0) are not modelled.
A12. PBC: following rule 1 of the manual, minimum image is applied to every
    difference between two group centres AND to differences between two
    individual atoms (coordNum, selfCoordNum, hBond, distanceInv, and
    atom-to-centre with group2CenterOnly).  Centres of mass/geometry are
    plain (weighted) averages of the given coordinates.  Everything else
    (polar angles, rmsd, rotations, gyration, ...) ignores the cell.
A13. groupCoord is NOT in the manual at all.  Implemented from the one-line
    description in the task statement: switching function of coordNum (same
    defaults 4.0 / 6 / 12, cutoff3 allowed) applied to the single distance
    between the centres of mass of group1 and group2.  Listed in
    UNDOCUMENTED_KINDS so that callers can discount it.
A14. rotateToReference without centerToReference ("rotation around the
    origin"): the rotation is taken as the one minimising
    sum |R x_i - ref_i|^2 over UNCENTRED coordinates.
A15. eigenvector: only the plain `vector` is supported (centred as the
    manual says; this has no effect on the value because the displacements
    sum to zero).  differenceVector / normalizeVector -> None (the order of
    centring and normalising is not documented).
A16. polarTheta = acos(z/|r|), polarPhi = atan2(y, x) of the COM (standard
    spherical coordinates; not written out in the manual).
A17. hBond: prm['groups']['acceptor'] and ['donor'] are one-atom lists.
A18. cartesian: all three coordinates of every atom (the manual's summary
    list mentions a selectable subset of X, Y, Z, but documents no keyword).
"""

import math

ORIENTATION_REF_TO_CURRENT = True
UNDOCUMENTED_KINDS = frozenset(['groupCoord'])

_DEG = 180.0 / math.pi


# ----------------------------------------------------------------------------
# small vector helpers
# ----------------------------------------------------------------------------

def _sub(a, b):
    return [a[0] - b[0], a[1] - b[1], a[2] - b[2]]


def _add(a, b):
    return [a[0] + b[0], a[1] + b[1], a[2] + b[2]]


def _scale(s, a):
    return [s * a[0], s * a[1], s * a[2]]


def _dot(a, b):
    return a[0] * b[0] + a[1] * b[1] + a[2] * b[2]


def _cross(a, b):
    return [a[1] * b[2] - a[2] * b[1],
            a[2] * b[0] - a[0] * b[2],
            a[0] * b[1] - a[1] * b[0]]


def _norm(a):
    return math.sqrt(_dot(a, a))


def _unit(a):
    n = _norm(a)
    return [a[0] / n, a[1] / n, a[2] / n]


def _clamp(x, lo=-1.0, hi=1.0):
    return lo if x < lo else (hi if x > hi else x)


def _wrap180(deg):
    """Wrap an angle in degrees into [-180, 180]."""
    while deg > 180.0:
        deg -= 360.0
    while deg < -180.0:
        deg += 360.0
    return deg


def rotate(R, v):
    """Apply the 3x3 matrix R (nested lists) to the vector v."""
    return [R[0][0] * v[0] + R[0][1] * v[1] + R[0][2] * v[2],
            R[1][0] * v[0] + R[1][1] * v[1] + R[1][2] * v[2],
            R[2][0] * v[0] + R[2][1] * v[1] + R[2][2] * v[2]]


def com(atoms, P, M):
    """Centre of mass of the atoms (0-based indices) with positions P, masses M."""
    mt = 0.0
    c = [0.0, 0.0, 0.0]
    for i in atoms:
        m = M[i]
        mt += m
        c[0] += m * P[i][0]
        c[1] += m * P[i][1]
        c[2] += m * P[i][2]
    return [c[0] / mt, c[1] / mt, c[2] / mt]


def cog(atoms, P):
    """Centre of geometry (unweighted mean) of the atoms."""
    n = float(len(atoms))
    c = [0.0, 0.0, 0.0]
    for i in atoms:
        c[0] += P[i][0]
        c[1] += P[i][1]
        c[2] += P[i][2]
    return [c[0] / n, c[1] / n, c[2] / n]


def _centroid(X):
    n = float(len(X))
    return [sum(x[0] for x in X) / n, sum(x[1] for x in X) / n,
            sum(x[2] for x in X) / n]


def min_image(d, cell):
    """Minimum-image representative of the difference vector d in an
    orthorhombic cell [Lx, Ly, Lz]; d unchanged when cell is None."""
    if cell is None:
        return [d[0], d[1], d[2]]
    out = []
    for k in range(3):
        L = cell[k]
        if L is None or L <= 0.0:
            out.append(d[k])
        else:
            out.append(d[k] - L * math.floor(d[k] / L + 0.5))
    return out


# ----------------------------------------------------------------------------
# quaternions / optimal rotation
# ----------------------------------------------------------------------------

def quat_to_matrix(q):
    """Rotation matrix of the unit quaternion q = (cos(t/2), sin(t/2) u)."""
    q0, q1, q2, q3 = q
    return [[q0 * q0 + q1 * q1 - q2 * q2 - q3 * q3,
             2.0 * (q1 * q2 - q0 * q3),
             2.0 * (q1 * q3 + q0 * q2)],
            [2.0 * (q1 * q2 + q0 * q3),
             q0 * q0 - q1 * q1 + q2 * q2 - q3 * q3,
             2.0 * (q2 * q3 - q0 * q1)],
            [2.0 * (q1 * q3 - q0 * q2),
             2.0 * (q2 * q3 + q0 * q1),
             q0 * q0 - q1 * q1 - q2 * q2 + q3 * q3]]


def jacobi_eigen(A, max_sweeps=64):
    """Cyclic Jacobi iteration for a real symmetric matrix A (nested lists).
    Returns (eigenvalues, V) with the eigenvectors as the COLUMNS of V."""
    n = len(A)
    a = [[0.5 * (A[i][j] + A[j][i]) for j in range(n)] for i in range(n)]
    v = [[1.0 if i == j else 0.0 for j in range(n)] for i in range(n)]
    for _ in range(max_sweeps):
        off = 0.0
        tot = 0.0
        for i in range(n):
            tot += abs(a[i][i])
            for j in range(i + 1, n):
                off += abs(a[i][j])
        if off == 0.0 or off <= 1e-22 * (tot + off):
            break
        for p in range(n - 1):
            for q in range(p + 1, n):
                apq = a[p][q]
                if apq == 0.0:
                    continue
                theta = (a[q][q] - a[p][p]) / (2.0 * apq)
                if abs(theta) > 1e150:
                    t = 0.5 / theta
                else:
                    t = 1.0 / (abs(theta) + math.sqrt(theta * theta + 1.0))
                    if theta < 0.0:
                        t = -t
                c = 1.0 / math.sqrt(t * t + 1.0)
                s = t * c
                # a <- a J   (columns p, q)
                for k in range(n):
                    akp = a[k][p]
                    akq = a[k][q]
                    a[k][p] = c * akp - s * akq
                    a[k][q] = s * akp + c * akq
                # a <- J^T a (rows p, q)
                for k in range(n):
                    apk = a[p][k]
                    aqk = a[q][k]
                    a[p][k] = c * apk - s * aqk
                    a[q][k] = s * apk + c * aqk
                a[p][q] = 0.0
                a[q][p] = 0.0
                # v <- v J
                for k in range(n):
                    vkp = v[k][p]
                    vkq = v[k][q]
                    v[k][p] = c * vkp - s * vkq
                    v[k][q] = s * vkp + c * vkq
    return [a[i][i] for i in range(n)], v


def _fix_sign(q):
    q = list(q)
    for c in q:
        if c > 0.0:
            break
        if c < 0.0:
            q = [-x for x in q]
            break
    return tuple(q)


def optimal_rotation(X, Y):
    """X, Y: equal-length lists of [x,y,z], both ALREADY centred at their
    centroids; returns (q, R) where R (3x3 nested lists) is the proper
    rotation that minimises sum |R x_i - y_i|^2 and q = (q0,q1,q2,q3) its
    unit quaternion with q0 >= 0.

    Method: sum |R x - y|^2 = sum |x|^2 + sum |y|^2 - 2 sum y.(R x), and
    sum y.(R x) = q^T N q for the symmetric 4x4 matrix N below built from the
    correlation matrix S_ab = sum_i x_ia y_ib (Horn 1987 / Kearsley 1989 /
    Coutsias 2004); the maximiser is the eigenvector of the largest
    eigenvalue, found by Jacobi iteration."""
    if len(X) != len(Y):
        raise ValueError("optimal_rotation: size mismatch")
    S = [[0.0, 0.0, 0.0], [0.0, 0.0, 0.0], [0.0, 0.0, 0.0]]
    for x, y in zip(X, Y):
        for a in range(3):
            for b in range(3):
                S[a][b] += x[a] * y[b]
    Sxx, Sxy, Sxz = S[0]
    Syx, Syy, Syz = S[1]
    Szx, Szy, Szz = S[2]
    N = [[Sxx + Syy + Szz, Syz - Szy, Szx - Sxz, Sxy - Syx],
         [Syz - Szy, Sxx - Syy - Szz, Sxy + Syx, Szx + Sxz],
         [Szx - Sxz, Sxy + Syx, -Sxx + Syy - Szz, Syz + Szy],
         [Sxy - Syx, Szx + Sxz, Syz + Szy, -Sxx - Syy + Szz]]
    w, V = jacobi_eigen(N)
    kmax = 0
    for k in range(1, 4):
        if w[k] > w[kmax]:
            kmax = k
    q = [V[0][kmax], V[1][kmax], V[2][kmax], V[3][kmax]]
    nq = math.sqrt(sum(c * c for c in q))
    q = [c / nq for c in q]
    q = _fix_sign(q)
    return q, quat_to_matrix(q)


# ----------------------------------------------------------------------------
# parameter access
# ----------------------------------------------------------------------------

def _grp(prm, name):
    return list(prm['groups'][name])


def _has_grp(prm, name):
    g = prm.get('groups', {})
    return name in g and g[name] is not None and len(g[name]) > 0


def _axis(prm):
    ax = prm.get('axis')
    if ax is None:
        ax = [0.0, 0.0, 1.0]
    return _unit([float(ax[0]), float(ax[1]), float(ax[2])])


def moving_frame(X, ref, center, rotate_, center_origin=False):
    """Positions X of a group expressed in its moving frame of reference:
    x'_i = R (x_i - x^C) + x^ref (manual, "Moving frame of reference")."""
    X = [list(map(float, x)) for x in X]
    if center_origin:
        center = True
    if not center and not rotate_:
        return X
    if ref is None:
        if center_origin and not rotate_:
            xc = _centroid(X)
            return [_sub(x, xc) for x in X]
        raise ValueError("moving frame requires reference positions")
    ref = [list(map(float, r)) for r in ref]
    xc = _centroid(X)
    rc = _centroid(ref)
    R = [[1.0, 0.0, 0.0], [0.0, 1.0, 0.0], [0.0, 0.0, 1.0]]
    if rotate_:
        if len(ref) != len(X):
            raise ValueError("refPositions must match the atom group")
        if center:
            _, R = optimal_rotation([_sub(x, xc) for x in X],
                                    [_sub(r, rc) for r in ref])
        else:
            _, R = optimal_rotation(X, ref)
    if center:
        shift = [0.0, 0.0, 0.0] if center_origin else rc
        return [_add(rotate(R, _sub(x, xc)), shift) for x in X]
    return [rotate(R, x) for x in X]


def _atoms_frame(prm, P, default_center=False, default_rotate=False):
    """(indices, positions) of the group 'atoms' in its moving frame."""
    atoms = _grp(prm, 'atoms')
    X = [P[i] for i in atoms]
    center = bool(prm.get('centerToReference', default_center))
    rot = bool(prm.get('rotateToReference', default_rotate))
    corig = bool(prm.get('centerToOrigin', False))
    ref = prm.get('fitRefPositions', prm.get('refPositions'))
    return atoms, moving_frame(X, ref, center, rot, corig)


def _com_list(X, masses):
    mt = sum(masses)
    return [sum(m * x[0] for m, x in zip(masses, X)) / mt,
            sum(m * x[1] for m, x in zip(masses, X)) / mt,
            sum(m * x[2] for m, x in zip(masses, X)) / mt]


# ----------------------------------------------------------------------------
# distances
# ----------------------------------------------------------------------------

def _dist_vec(prm, P, M, cell):
    r1 = com(_grp(prm, 'group1'), P, M)
    r2 = com(_grp(prm, 'group2'), P, M)
    return min_image(_sub(r2, r1), cell)


def _distance(prm, P, M, Q, cell):
    return _norm(_dist_vec(prm, P, M, cell))


def _distance_vec(prm, P, M, Q, cell):
    return _dist_vec(prm, P, M, cell)


def _distance_dir(prm, P, M, Q, cell):
    return _unit(_dist_vec(prm, P, M, cell))


def _distance_z(prm, P, M, Q, cell):
    r = com(_grp(prm, 'main'), P, M)
    r1 = com(_grp(prm, 'ref'), P, M)
    if _has_grp(prm, 'ref2'):
        r2 = com(_grp(prm, 'ref2'), P, M)
        d12 = min_image(_sub(r2, r1), cell)
        e = _unit(d12)
        rm = _add(r1, _scale(0.5, d12))
        return _dot(e, min_image(_sub(r, rm), cell))
    e = _axis(prm)
    return _dot(e, min_image(_sub(r, r1), cell))


def _distance_xy(prm, P, M, Q, cell):
    r = com(_grp(prm, 'main'), P, M)
    r1 = com(_grp(prm, 'ref'), P, M)
    if _has_grp(prm, 'ref2'):
        r2 = com(_grp(prm, 'ref2'), P, M)
        e = _unit(min_image(_sub(r2, r1), cell))
    else:
        e = _axis(prm)
    d = min_image(_sub(r, r1), cell)
    dperp = _sub(d, _scale(_dot(d, e), e))
    return _norm(dperp)


def _distance_inv(prm, P, M, Q, cell):
    n = int(prm.get('exponent', 6))
    g1 = _grp(prm, 'group1')
    g2 = _grp(prm, 'group2')
    s = 0.0
    for i in g1:
        for j in g2:
            d = _norm(min_image(_sub(P[j], P[i]), cell))
            s += d ** (-n)
    s /= float(len(g1) * len(g2))
    return s ** (-1.0 / n)


# ----------------------------------------------------------------------------
# angles
# ----------------------------------------------------------------------------

def _angle_between(a, b):
    c = _dot(a, b) / (_norm(a) * _norm(b))
    return math.acos(_clamp(c)) * _DEG


def _angle(prm, P, M, Q, cell):
    r1 = com(_grp(prm, 'group1'), P, M)
    r2 = com(_grp(prm, 'group2'), P, M)
    r3 = com(_grp(prm, 'group3'), P, M)
    a = min_image(_sub(r1, r2), cell)
    b = min_image(_sub(r3, r2), cell)
    return _angle_between(a, b)


def _dipole(atoms, P, M, Q):
    c = com(atoms, P, M)
    mu = [0.0, 0.0, 0.0]
    for i in atoms:
        d = _sub(P[i], c)
        mu[0] += Q[i] * d[0]
        mu[1] += Q[i] * d[1]
        mu[2] += Q[i] * d[2]
    return mu


def _dipole_angle(prm, P, M, Q, cell):
    mu = _dipole(_grp(prm, 'group1'), P, M, Q)
    r2 = com(_grp(prm, 'group2'), P, M)
    r3 = com(_grp(prm, 'group3'), P, M)
    r23 = min_image(_sub(r3, r2), cell)
    return _angle_between(mu, r23)


def _dihedral(prm, P, M, Q, cell):
    r1 = com(_grp(prm, 'group1'), P, M)
    r2 = com(_grp(prm, 'group2'), P, M)
    r3 = com(_grp(prm, 'group3'), P, M)
    r4 = com(_grp(prm, 'group4'), P, M)
    b1 = min_image(_sub(r2, r1), cell)
    b2 = min_image(_sub(r3, r2), cell)
    b3 = min_image(_sub(r4, r3), cell)
    n1 = _cross(b1, b2)
    n2 = _cross(b2, b3)
    y = _norm(b2) * _dot(b1, n2)
    x = _dot(n1, n2)
    return math.atan2(y, x) * _DEG


def _polar_com(prm, P, M):
    atoms, X = _atoms_frame(prm, P)
    return _com_list(X, [M[i] for i in atoms])


def _polar_theta(prm, P, M, Q, cell):
    r = _polar_com(prm, P, M)
    return math.acos(_clamp(r[2] / _norm(r))) * _DEG


def _polar_phi(prm, P, M, Q, cell):
    r = _polar_com(prm, P, M)
    return math.atan2(r[1], r[0]) * _DEG


# ----------------------------------------------------------------------------
# contacts
# ----------------------------------------------------------------------------

def switching(l2, n, m):
    """(1 - x^n)/(1 - x^m) with x = sqrt(l2) (l2 = squared scaled distance);
    the removable singularity at x = 1 is replaced by its limit n/m."""
    if l2 <= 0.0:
        return 1.0
    t = 0.5 * math.log(l2)            # ln x
    try:
        num = -math.expm1(n * t)      # 1 - x^n
        den = -math.expm1(m * t)      # 1 - x^m
    except OverflowError:
        return 0.0
    if den == 0.0:
        return float(n) / float(m)
    return num / den


def _scaled_l2(d, prm, default_cutoff):
    c3 = prm.get('cutoff3')
    if c3 is not None:
        return ((d[0] / c3[0]) ** 2 + (d[1] / c3[1]) ** 2 +
                (d[2] / c3[2]) ** 2)
    d0 = prm.get('cutoff')
    if d0 is None:
        d0 = default_cutoff
    d0 = float(d0)
    return _dot(d, d) / (d0 * d0)


def _exps(prm, dn, dm):
    n = prm.get('expNumer')
    m = prm.get('expDenom')
    return (dn if n is None else int(n)), (dm if m is None else int(m))


def _coordnum(prm, P, M, Q, cell):
    n, m = _exps(prm, 6, 12)
    g1 = _grp(prm, 'group1')
    g2 = _grp(prm, 'group2')
    s = 0.0
    if prm.get('group2CenterOnly'):
        c2 = com(g2, P, M)
        for i in g1:
            d = min_image(_sub(P[i], c2), cell)
            s += switching(_scaled_l2(d, prm, 4.0), n, m)
        return s
    for i in g1:
        for j in g2:
            d = min_image(_sub(P[i], P[j]), cell)
            s += switching(_scaled_l2(d, prm, 4.0), n, m)
    return s


def _self_coordnum(prm, P, M, Q, cell):
    n, m = _exps(prm, 6, 12)
    g1 = _grp(prm, 'group1')
    s = 0.0
    for a in range(len(g1)):
        for b in range(a + 1, len(g1)):
            d = min_image(_sub(P[g1[a]], P[g1[b]]), cell)
            s += switching(_scaled_l2(d, prm, 4.0), n, m)
    return s


def _group_coord(prm, P, M, Q, cell):
    # NOT in the manual: see AMBIGUITIES A13.
    n, m = _exps(prm, 6, 12)
    c1 = com(_grp(prm, 'group1'), P, M)
    c2 = com(_grp(prm, 'group2'), P, M)
    d = min_image(_sub(c1, c2), cell)
    return switching(_scaled_l2(d, prm, 4.0), n, m)


def _hbond(prm, P, M, Q, cell):
    n, m = _exps(prm, 6, 8)
    a = _grp(prm, 'acceptor')[0]
    dn = _grp(prm, 'donor')[0]
    d = min_image(_sub(P[a], P[dn]), cell)
    d0 = prm.get('cutoff')
    if d0 is None:
        d0 = 3.3
    d0 = float(d0)
    return switching(_dot(d, d) / (d0 * d0), n, m)


# ----------------------------------------------------------------------------
# collective metrics
# ----------------------------------------------------------------------------

def _rmsd(prm, P, M, Q, cell):
    ref = prm['refPositions']
    atoms, X = _atoms_frame(prm, P, True, True)
    if len(ref) != len(atoms):
        raise ValueError("rmsd: refPositions must match the atom group")
    s = 0.0
    for x, r in zip(X, ref):
        d = _sub(x, r)
        s += _dot(d, d)
    return math.sqrt(s / float(len(atoms)))


def _eigenvector(prm, P, M, Q, cell):
    if prm.get('differenceVector') or prm.get('normalizeVector'):
        return None
    ref = prm['refPositions']
    vec = prm['vector']
    atoms, X = _atoms_frame(prm, P, True, True)
    if len(ref) != len(atoms) or len(vec) != len(atoms):
        raise ValueError("eigenvector: size mismatch")
    vc = _centroid(vec)
    s = 0.0
    for x, r, v in zip(X, ref, vec):
        s += _dot(_sub(v, vc), _sub(x, r))
    return s


def _gyration(prm, P, M, Q, cell):
    atoms, X = _atoms_frame(prm, P)
    c = _centroid(X)
    s = 0.0
    for x in X:
        d = _sub(x, c)
        s += _dot(d, d)
    return math.sqrt(s / float(len(X)))


def _inertia(prm, P, M, Q, cell):
    atoms, X = _atoms_frame(prm, P)
    c = _centroid(X)
    s = 0.0
    for x in X:
        d = _sub(x, c)
        s += _dot(d, d)
    return s


def _inertia_z(prm, P, M, Q, cell):
    atoms, X = _atoms_frame(prm, P)
    e = _axis(prm)
    c = _centroid(X)
    s = 0.0
    for x in X:
        p = _dot(_sub(x, c), e)
        s += p * p
    return s


def _dipole_magnitude(prm, P, M, Q, cell):
    return _norm(_dipole(_grp(prm, 'atoms'), P, M, Q))


# ----------------------------------------------------------------------------
# rotations
# ----------------------------------------------------------------------------

def _orientation_q(prm, P):
    atoms = _grp(prm, 'atoms')
    ref = prm['refPositions']
    if len(ref) != len(atoms):
        raise ValueError("orientation: refPositions must match the group")
    X = [list(map(float, P[i])) for i in atoms]
    Y = [list(map(float, r)) for r in ref]
    xc = _centroid(X)
    yc = _centroid(Y)
    Xc = [_sub(x, xc) for x in X]
    Yc = [_sub(y, yc) for y in Y]
    if ORIENTATION_REF_TO_CURRENT:
        return optimal_rotation(Yc, Xc)
    return optimal_rotation(Xc, Yc)


def _orientation(prm, P, M, Q, cell):
    q, _ = _orientation_q(prm, P)
    return list(q)


def _orientation_angle(prm, P, M, Q, cell):
    q, _ = _orientation_q(prm, P)
    return 2.0 * math.acos(_clamp(abs(q[0]))) * _DEG


def _orientation_proj(prm, P, M, Q, cell):
    q, _ = _orientation_q(prm, P)
    return 2.0 * q[0] * q[0] - 1.0


def _spin_angle(prm, P, M, Q, cell):
    q, _ = _orientation_q(prm, P)
    e = _axis(prm)
    p = q[1] * e[0] + q[2] * e[1] + q[3] * e[2]
    return _wrap180(2.0 * math.atan2(p, q[0]) * _DEG)


def _tilt(prm, P, M, Q, cell):
    q, _ = _orientation_q(prm, P)
    e = _axis(prm)
    p = q[1] * e[0] + q[2] * e[1] + q[3] * e[2]
    return _clamp(2.0 * (q[0] * q[0] + p * p) - 1.0)


def euler_angles(R):
    """(phi, theta, psi) in degrees of the rotation matrix R whose columns
    are the rotated axes X, Y, Z (manual's geometric definition, see A3)."""
    phi = math.atan2(R[0][2], -R[1][2]) * _DEG
    theta = math.asin(_clamp(R[2][2])) * _DEG
    psi = math.atan2(R[2][0], R[2][1]) * _DEG
    return phi, theta, psi


def _euler_phi(prm, P, M, Q, cell):
    _, R = _orientation_q(prm, P)
    return euler_angles(R)[0]


def _euler_theta(prm, P, M, Q, cell):
    _, R = _orientation_q(prm, P)
    return euler_angles(R)[1]


def _euler_psi(prm, P, M, Q, cell):
    _, R = _orientation_q(prm, P)
    return euler_angles(R)[2]


# ----------------------------------------------------------------------------
# raw data
# ----------------------------------------------------------------------------

def _cartesian(prm, P, M, Q, cell):
    atoms, X = _atoms_frame(prm, P)
    out = []
    for x in X:
        out.extend([float(x[0]), float(x[1]), float(x[2])])
    return out


_KINDS = {
    'distance': _distance,
    'distanceZ': _distance_z,
    'distanceXY': _distance_xy,
    'distanceVec': _distance_vec,
    'distanceDir': _distance_dir,
    'distanceInv': _distance_inv,
    'angle': _angle,
    'dipoleAngle': _dipole_angle,
    'dihedral': _dihedral,
    'polarTheta': _polar_theta,
    'polarPhi': _polar_phi,
    'coordNum': _coordnum,
    'selfCoordNum': _self_coordnum,
    'groupCoord': _group_coord,
    'hBond': _hbond,
    'rmsd': _rmsd,
    'eigenvector': _eigenvector,
    'gyration': _gyration,
    'inertia': _inertia,
    'inertiaZ': _inertia_z,
    'dipoleMagnitude': _dipole_magnitude,
    'orientation': _orientation,
    'orientationAngle': _orientation_angle,
    'orientationProj': _orientation_proj,
    'spinAngle': _spin_angle,
    'tilt': _tilt,
    'eulerPhi': _euler_phi,
    'eulerTheta': _euler_theta,
    'eulerPsi': _euler_psi,
    'cartesian': _cartesian,
}

IMPLEMENTED_KINDS = tuple(sorted(_KINDS))


def value(kind, prm, P, M, Q, cell=None):
    """kind: component keyword as in the configuration.
    prm: dict of parameters parsed from the configuration block:
         'groups': dict name -> list of 0-based atom indices (group1, group2,
                   group3, group4, main, ref, ref2, atoms, acceptor, donor),
         optional: 'axis' [x,y,z]; 'cutoff' float; 'cutoff3' [x,y,z];
         'expNumer' int; 'expDenom' int; 'group2CenterOnly' bool;
         'exponent' int (distanceInv); 'refPositions' list of [x,y,z] (one
         per atom of group 'atoms', same order); 'vector' list of [x,y,z].
    P: list of [x,y,z] positions of all atoms; M: masses; Q: charges.
    cell: None or [Lx,Ly,Lz] of an orthorhombic periodic cell: distances
          between group centres (and atom pairs) use the minimum image.
    Returns a float for scalar components, a list of floats for vector ones
    (distanceVec 3, distanceDir 3, orientation 4, cartesian 3N), or None if
    the kind is not implemented."""
    f = _KINDS.get(kind)
    if f is None:
        return None
    return f(prm, P, M, Q, cell)


# ----------------------------------------------------------------------------
# self-test
# ----------------------------------------------------------------------------

def _rand_quat(rng):
    while True:
        q = [rng.gauss(0.0, 1.0) for _ in range(4)]
        n = math.sqrt(sum(c * c for c in q))
        if n > 1e-3:
            return _fix_sign([c / n for c in q])


def _matmul(A, B):
    return [[sum(A[i][k] * B[k][j] for k in range(3)) for j in range(3)]
            for i in range(3)]


def _transpose(A):
    return [[A[j][i] for j in range(3)] for i in range(3)]


def _rz(a):
    c, s = math.cos(a), math.sin(a)
    return [[c, -s, 0.0], [s, c, 0.0], [0.0, 0.0, 1.0]]


def _rx(a):
    c, s = math.cos(a), math.sin(a)
    return [[1.0, 0.0, 0.0], [0.0, c, -s], [0.0, s, c]]


def _maxdiff(a, b):
    if isinstance(a, (list, tuple)):
        return max(abs(x - y) for x, y in zip(a, b))
    return abs(a - b)


def _selftest():
    import random
    rng = random.Random(1)
    nat = 14
    checks = 0

    def rand_conf(scale=5.0):
        return [[rng.uniform(-scale, scale) for _ in range(3)]
                for _ in range(nat)]

    def sumsq(R, X, Y):
        s = 0.0
        for x, y in zip(X, Y):
            d = _sub(rotate(R, x), y)
            s += _dot(d, d)
        return s

    for trial in range(20):
        P = rand_conf()
        M = [rng.uniform(1.0, 16.0) for _ in range(nat)]
        Q = [rng.uniform(-1.0, 1.0) for _ in range(nat)]
        refpos = rand_conf()
        qr = _rand_quat(rng)
        Rr = quat_to_matrix(qr)
        tr = [rng.uniform(-20.0, 20.0) for _ in range(3)]
        P2 = [_add(rotate(Rr, p), tr) for p in P]

        # sanity: random rotation is proper and orthogonal
        I = _matmul(Rr, _transpose(Rr))
        for i in range(3):
            for j in range(3):
                assert abs(I[i][j] - (1.0 if i == j else 0.0)) < 1e-13
        assert abs(_dot(_cross([Rr[k][0] for k in range(3)],
                               [Rr[k][1] for k in range(3)]),
                        [Rr[k][2] for k in range(3)]) - 1.0) < 1e-13

        # (1) invariance under rigid roto-translation ------------------------
        g = {'group1': [0, 1, 2], 'group2': [3, 4], 'group3': [5, 6, 7],
             'group4': [8], 'atoms': list(range(2, 12))}
        inv_cases = [
            ('distance', {'groups': g}),
            ('angle', {'groups': g}),
            ('dihedral', {'groups': g}),
            ('gyration', {'groups': g}),
            # extra invariants
            ('inertia', {'groups': g}),
            ('distanceInv', {'groups': g}),
            ('distanceInv', {'groups': g, 'exponent': 2}),
            ('coordNum', {'groups': g, 'cutoff': 5.0}),
            ('coordNum', {'groups': g, 'group2CenterOnly': True}),
            ('selfCoordNum', {'groups': {'group1': list(range(8))}}),
            ('groupCoord', {'groups': g, 'cutoff': 6.0}),
            ('hBond', {'groups': {'acceptor': [1], 'donor': [9]}}),
            ('dipoleAngle', {'groups': g}),
            ('dipoleMagnitude', {'groups': g}),
            ('rmsd', {'groups': g, 'refPositions': refpos[2:12]}),
            ('eigenvector', {'groups': g, 'refPositions': refpos[2:12],
                             'vector': rand_conf(1.0)[2:12]}),
        ]
        for kind, prm in inv_cases:
            a = value(kind, prm, P, M, Q)
            b = value(kind, prm, P2, M, Q)
            assert a is not None
            assert _maxdiff(a, b) < 1e-9 * max(1.0, abs(a)), (kind, a, b)
            checks += 1
        a = value('angle', {'groups': g}, P, M, Q)
        assert 0.0 <= a <= 180.0
        a = value('dihedral', {'groups': g}, P, M, Q)
        assert -180.0 <= a <= 180.0
        # mirror image flips the dihedral sign, keeps the angle
        Pm = [[-p[0], p[1], p[2]] for p in P]
        assert abs(value('dihedral', {'groups': g}, Pm, M, Q) + a) < 1e-9
        # gyration^2 * N == inertia
        gy = value('gyration', {'groups': g}, P, M, Q)
        assert abs(gy * gy * 10 - value('inertia', {'groups': g}, P, M, Q)) \
            < 1e-9
        iz = sum(value('inertiaZ', {'groups': g, 'axis': ax}, P, M, Q)
                 for ax in ([1, 0, 0], [0, 2, 0], [0, 0, 1]))
        assert abs(iz - value('inertia', {'groups': g}, P, M, Q)) < 1e-9

        # (2) rmsd of a rigid copy of the reference; rotation recovered ------
        atoms = list(range(2, 12))
        ref = refpos[2:12]
        Pc = [list(p) for p in P]
        for k, i in enumerate(atoms):
            Pc[i] = _add(rotate(Rr, ref[k]), tr)
        prm = {'groups': {'atoms': atoms}, 'refPositions': ref}
        r = value('rmsd', prm, Pc, M, Q)
        assert r < 1e-9, r
        X = [Pc[i] for i in atoms]
        xc = _centroid(X)
        yc = _centroid(ref)
        Xc = [_sub(x, xc) for x in X]
        Yc = [_sub(y, yc) for y in ref]
        q, R = optimal_rotation(Xc, Yc)      # current -> reference = Rr^T
        Rt = _transpose(Rr)
        assert q[0] >= 0.0
        assert abs(sum(c * c for c in q) - 1.0) < 1e-12
        for i in range(3):
            for j in range(3):
                assert abs(R[i][j] - Rt[i][j]) < 1e-9, (R, Rt)
        qo = value('orientation', prm, Pc, M, Q)  # reference -> current = Rr
        qexp = qr if ORIENTATION_REF_TO_CURRENT else \
            _fix_sign((qr[0], -qr[1], -qr[2], -qr[3]))
        assert _maxdiff(qo, qexp) < 1e-9, (qo, qexp)
        checks += 3

        # (3) optimality on non-congruent (noisy) data -----------------------
        X = [P[i] for i in atoms]
        xc = _centroid(X)
        Xc = [_sub(x, xc) for x in X]
        q, R = optimal_rotation(Xc, Yc)
        best = sumsq(R, Xc, Yc)
        # proper rotation
        I = _matmul(R, _transpose(R))
        for i in range(3):
            for j in range(3):
                assert abs(I[i][j] - (1.0 if i == j else 0.0)) < 1e-12
        for _ in range(200):
            ax = _unit([rng.gauss(0, 1) for _ in range(3)])
            ang = rng.choice([1e-4, 1e-2, 0.3, 3.0]) * rng.uniform(-1, 1)
            qp = (math.cos(ang / 2),) + tuple(math.sin(ang / 2) * c
                                              for c in ax)
            Rp = _matmul(quat_to_matrix(qp), R)
            assert sumsq(Rp, Xc, Yc) >= best - 1e-9 * max(1.0, best)
        for _ in range(50):
            Rp = quat_to_matrix(_rand_quat(rng))
            assert sumsq(Rp, Xc, Yc) >= best - 1e-9 * max(1.0, best)
        # rmsd from the value() path equals sqrt(best/N)
        prmn = {'groups': {'atoms': atoms}, 'refPositions': ref}
        assert abs(value('rmsd', prmn, P, M, Q) -
                   math.sqrt(best / len(atoms))) < 1e-10
        checks += 1

        # (4) coordination numbers within bounds -----------------------------
        for cut in (0.5, 2.0, 4.0, 8.0, 50.0):
            c = value('coordNum', {'groups': g, 'cutoff': cut}, P, M, Q)
            assert 0.0 <= c <= 3 * 2, c
            c = value('coordNum', {'groups': g, 'cutoff3': [cut, 2 * cut, cut]},
                      P, M, Q)
            assert 0.0 <= c <= 3 * 2, c
            c = value('coordNum', {'groups': g, 'cutoff': cut,
                                   'group2CenterOnly': True}, P, M, Q)
            assert 0.0 <= c <= 3, c
            c = value('selfCoordNum', {'groups': {'group1': list(range(6))},
                                       'cutoff': cut}, P, M, Q)
            assert 0.0 <= c <= 15, c
            c = value('hBond', {'groups': {'acceptor': [0], 'donor': [1]},
                                'cutoff': cut}, P, M, Q)
            assert 0.0 <= c <= 1.0
        checks += 1

        # (5) orientationProj == cos(orientationAngle) -----------------------
        oa = value('orientationAngle', prmn, P, M, Q)
        op = value('orientationProj', prmn, P, M, Q)
        assert 0.0 <= oa <= 180.0
        assert abs(op - math.cos(math.radians(oa))) < 1e-12, (op, oa)
        oa = value('orientationAngle', prm, Pc, M, Q)
        op = value('orientationProj', prm, Pc, M, Q)
        assert abs(op - math.cos(math.radians(oa))) < 1e-12, (op, oa)
        # angle of the known rotation
        assert abs(oa - 2.0 * math.degrees(math.acos(qr[0]))) < 1e-7
        checks += 1

        # documented relations between rotation components (axis z) ---------
        th = value('eulerTheta', prm, Pc, M, Q)
        ph = value('eulerPhi', prm, Pc, M, Q)
        ps = value('eulerPsi', prm, Pc, M, Q)
        ti = value('tilt', prm, Pc, M, Q)
        sp = value('spinAngle', prm, Pc, M, Q)
        assert abs(ti - math.sin(math.radians(th))) < 1e-9
        assert abs(_wrap180(sp - (ph + ps))) < 1e-6 or \
            abs(abs(_wrap180(sp - (ph + ps))) - 360.0) < 1e-6
        # Euler angles rebuild the rotation: R = Rz(phi) Rx(90-theta) Rz(psi)
        Rb = _matmul(_rz(math.radians(ph)),
                     _matmul(_rx(math.radians(90.0 - th)),
                             _rz(math.radians(ps))))
        Rexp = Rr if ORIENTATION_REF_TO_CURRENT else _transpose(Rr)
        for i in range(3):
            for j in range(3):
                assert abs(Rb[i][j] - Rexp[i][j]) < 1e-7, (Rb, Rexp)
        # tilt along a generic axis equals e.(R e)
        e = _unit([rng.gauss(0, 1) for _ in range(3)])
        ti = value('tilt', dict(prm, axis=e), Pc, M, Q)
        assert abs(ti - _dot(e, rotate(Rexp, e))) < 1e-9
        checks += 1

    # ---- fixed examples from the manual -----------------------------------
    # 90 degrees about z is (0.707, 0, 0, 0.707)
    ref = [[1.0, 0.2, 0.1], [-0.5, 1.0, 0.3], [0.1, -1.0, -0.7],
           [-0.6, -0.2, 0.3], [0.9, 0.4, -1.2]]
    cur = [rotate(_rz(math.pi / 2), r) for r in ref]
    prm = {'groups': {'atoms': [0, 1, 2, 3, 4]}, 'refPositions': ref}
    q = value('orientation', prm, cur, [1.0] * 5, [0.0] * 5)
    s = math.sqrt(0.5)
    sgn = 1.0 if ORIENTATION_REF_TO_CURRENT else -1.0
    assert _maxdiff(q, [s, 0.0, 0.0, sgn * s]) < 1e-12, q
    assert abs(value('spinAngle', prm, cur, [1.0] * 5, [0.0] * 5)
               - sgn * 90.0) < 1e-9
    assert abs(value('tilt', prm, cur, [1.0] * 5, [0.0] * 5) - 1.0) < 1e-12
    assert abs(value('orientationAngle', prm, cur, [1.0] * 5, [0.0] * 5)
               - 90.0) < 1e-9
    # identity
    q = value('orientation', prm, ref, [1.0] * 5, [0.0] * 5)
    assert _maxdiff(q, [1.0, 0.0, 0.0, 0.0]) < 1e-12
    assert value('cartesian', prm, ref, None, None) == \
        [c for r in ref for c in r]

    # switching function: n/m at d = d0, 1 at 0, ->0 far away
    assert abs(switching(1.0, 6, 12) - 0.5) < 1e-15
    assert abs(switching(1.0 + 1e-13, 6, 12) - 0.5) < 1e-9
    assert switching(0.0, 6, 12) == 1.0
    assert switching(1e8, 6, 12) < 1e-20
    assert abs(switching(0.49, 6, 12) - (1 - 0.7 ** 6) / (1 - 0.7 ** 12)) \
        < 1e-14

    # distances, with and without PBC
    Pd = [[0.0, 0.0, 0.0], [9.0, 1.0, -8.0], [1.0, 1.0, 3.0]]
    Md = [1.0, 1.0, 1.0]
    gd = {'group1': [0], 'group2': [1], 'main': [1], 'ref': [0], 'ref2': [2]}
    assert abs(value('distance', {'groups': gd}, Pd, Md, Md)
               - math.sqrt(81 + 1 + 64)) < 1e-12
    assert abs(value('distance', {'groups': gd}, Pd, Md, Md,
                     cell=[10.0, 10.0, 10.0]) - math.sqrt(1 + 1 + 4)) < 1e-12
    assert value('distanceVec', {'groups': gd}, Pd, Md, Md,
                 cell=[10.0, 10.0, 10.0]) == [-1.0, 1.0, 2.0]
    dd = value('distanceDir', {'groups': gd}, Pd, Md, Md)
    assert abs(_norm(dd) - 1.0) < 1e-14
    assert min_image([6.0, -6.0, 4.0], [10.0, 10.0, 10.0]) == [-4.0, 4.0, 4.0]
    g1 = {'main': [1], 'ref': [0]}
    assert abs(value('distanceZ', {'groups': g1}, Pd, Md, Md) + 8.0) < 1e-12
    assert abs(value('distanceZ', {'groups': g1}, Pd, Md, Md,
                     cell=[10.0, 10.0, 10.0]) - 2.0) < 1e-12
    assert abs(value('distanceXY', {'groups': g1}, Pd, Md, Md)
               - math.sqrt(82.0)) < 1e-12
    assert abs(value('distanceZ', {'groups': g1, 'axis': [3.0, 0, 0]},
                     Pd, Md, Md) - 9.0) < 1e-12
    # ref2 variant: e.(r - (r1+r2)/2), e = (r2-r1)/|r2-r1|
    e = _unit([1.0, 1.0, 3.0])
    rm = [0.5, 0.5, 1.5]
    dz = value('distanceZ', {'groups': gd}, Pd, Md, Md)
    assert abs(dz - _dot(e, _sub(Pd[1], rm))) < 1e-12
    dxy = value('distanceXY', {'groups': gd}, Pd, Md, Md)
    full = _sub(Pd[1], rm)
    assert abs(dxy * dxy + dz * dz - _dot(full, full)) < 1e-9
    # simple angles
    Pa = [[1.0, 0.0, 0.0], [0.0, 0.0, 0.0], [0.0, 1.0, 0.0], [0.0, 1.0, 1.0]]
    ga = {'group1': [0], 'group2': [1], 'group3': [2], 'group4': [3],
          'atoms': [3]}
    assert abs(value('angle', {'groups': ga}, Pa, [1.0] * 4, [0.0] * 4)
               - 90.0) < 1e-12
    assert abs(abs(value('dihedral', {'groups': ga}, Pa, [1.0] * 4,
                         [0.0] * 4)) - 90.0) < 1e-12
    assert abs(value('polarTheta', {'groups': ga}, Pa, [1.0] * 4, [0.0] * 4)
               - 45.0) < 1e-12
    assert abs(value('polarPhi', {'groups': ga}, Pa, [1.0] * 4, [0.0] * 4)
               - 90.0) < 1e-12
    # dipole of +1/-1 pair separated by 2 along x
    Pq = [[1.0, 0.0, 0.0], [-1.0, 0.0, 0.0], [0.0, 0.0, 0.0], [0.0, 3.0, 0.0]]
    gq = {'atoms': [0, 1], 'group1': [0, 1], 'group2': [2], 'group3': [3]}
    assert abs(value('dipoleMagnitude', {'groups': gq}, Pq, [1.0] * 4,
                     [1.0, -1.0, 0.0, 0.0]) - 2.0) < 1e-12
    assert abs(value('dipoleAngle', {'groups': gq}, Pq, [1.0] * 4,
                     [1.0, -1.0, 0.0, 0.0]) - 90.0) < 1e-12
    assert value('noSuchComponent', {}, Pq, None, None) is None

    print("cvref self-test passed (%d randomised check groups; %d kinds)"
          % (checks, len(_KINDS)))


if __name__ == "__main__":
    _selftest()
