#!/usr/bin/env python3
"""Shared machinery of the checks: PRNG, bit-exact floats, running implementation and model on
the same op file, comparing canonical outputs, Lean audit, evidence, verdict."""
import json, math, os, re, struct, subprocess, sys, time, hashlib, glob

VERIF = os.path.dirname(os.path.dirname(os.path.abspath(__file__)))
sys.path.insert(0, os.path.join(VERIF, "tools"))
import cvbuild

LEAN = os.path.join(VERIF, "lean")
REPLAYS = os.path.join(VERIF, "evidence", "replays")
CORPUS = os.path.join(VERIF, "corpus")

MASK = (1 << 64) - 1


class Rng:
    """SplitMix64; every random choice of a run derives from one state seeded by VERIF_SEED."""

    def __init__(self, seed):
        self.s = (seed * 0x9E3779B97F4A7C15 + 0x1234567) & MASK

    def u64(self):
        self.s = (self.s + 0x9E3779B97F4A7C15) & MASK
        z = self.s
        z = ((z ^ (z >> 30)) * 0xBF58476D1CE4E5B9) & MASK
        z = ((z ^ (z >> 27)) * 0x94D049BB133111EB) & MASK
        return z ^ (z >> 31)

    def rand(self):
        return (self.u64() >> 11) / float(1 << 53)

    def uniform(self, a, b):
        return a + (b - a) * self.rand()

    def randint(self, a, b):  # inclusive
        return a + self.u64() % (b - a + 1)

    def choice(self, l):
        return l[self.u64() % len(l)]

    def gauss(self):
        u1 = max(self.rand(), 1e-300)
        u2 = self.rand()
        return math.sqrt(-2 * math.log(u1)) * math.cos(2 * math.pi * u2)

    def shuffle(self, l):
        for i in range(len(l) - 1, 0, -1):
            j = self.u64() % (i + 1)
            l[i], l[j] = l[j], l[i]
        return l

    def sample(self, l, k):
        """k distinct elements of l, in random order"""
        l = list(l)
        self.shuffle(l)
        return l[:k]

    def dyadic(self, lo, hi, bits=6):
        """a value k/2^bits in [lo,hi] — exactly representable, lands on bin edges"""
        k = self.randint(int(math.ceil(lo * (1 << bits))), int(math.floor(hi * (1 << bits))))
        return k / float(1 << bits)

    def fork(self):
        return Rng(self.u64())


def fbits(x):
    return str(struct.unpack("<Q", struct.pack("<d", float(x)))[0])


def bits_to_f(s):
    return struct.unpack("<d", struct.pack("<Q", int(s)))[0]


def esc(s):
    return s.replace("\\", "\\\\").replace("\n", "\\n").replace(" ", "\\s").replace("\t", "\\t").replace("\r", "\\r")


def parse_out(text):
    """> lineno tag tokens...  ->  dict[(lineno, tag, occurrence)] = [tokens]"""
    res = {}
    occ = {}
    order = []
    for line in text.splitlines():
        if not line.startswith("> "):
            continue
        p = line.split(" ")
        if len(p) < 3:
            continue
        try:
            ln = int(p[1])
        except ValueError:
            continue
        tag = p[2]
        k = (ln, tag)
        occ[k] = occ.get(k, 0) + 1
        key = (ln, tag, occ[k])
        res[key] = p[3:]
        order.append(key)
    return res, order


def tok_val(t):
    if t.startswith("f"):
        return ("f", bits_to_f(t[1:]))
    if t.startswith("i"):
        return ("i", int(t[1:]))
    return ("s", t[1:])


def close(a, b, rtol, atol):
    if a == b:
        return True
    if math.isnan(a) and math.isnan(b):
        return True
    if math.isnan(a) or math.isnan(b) or math.isinf(a) or math.isinf(b):
        return False
    return abs(a - b) <= atol + rtol * max(abs(a), abs(b))


def compare(impl_text, model_text, rtol=1e-9, atol=1e-11, tol_by_tag=None, ignore_tags=()):
    """Every line the model prints must be matched by the implementation's line with the same
    (op line, tag, occurrence).  Returns (n_compared, mismatches[list of dict])."""
    impl, _ = parse_out(impl_text)
    model, order = parse_out(model_text)
    mism = []
    n = 0
    for key in order:
        if key[1] in ignore_tags:
            continue
        n += 1
        mt = model[key]
        it = impl.get(key)
        if it is None:
            mism.append({"line": key[0], "tag": key[1], "why": "impl printed nothing", "model": mt})
            continue
        if len(it) != len(mt):
            mism.append({"line": key[0], "tag": key[1], "why": "arity", "impl": it, "model": mt})
            continue
        rt, at = (tol_by_tag or {}).get(key[1], (rtol, atol))
        for a, b in zip(it, mt):
            ka, va = tok_val(a)
            kb, vb = tok_val(b)
            ok = (ka == kb) and (close(va, vb, rt, at) if ka == "f" else va == vb)
            if not ok:
                mism.append({"line": key[0], "tag": key[1], "why": "value", "impl": [str(tok_val(x)[1]) for x in it],
                             "model": [str(tok_val(x)[1]) for x in mt]})
                break
    return n, mism


def run_impl(opfile, variant="rel", timeout=600, cwd=None, env=None):
    exe = cvbuild.build_harness(variant)
    e = dict(os.environ)
    e["OMP_NUM_THREADS"] = e.get("OMP_NUM_THREADS", "1")
    if env:
        e.update(env)
    try:
        p = subprocess.run([exe, opfile], stdout=subprocess.PIPE, stderr=subprocess.PIPE, text=True,
                           timeout=timeout, cwd=cwd, env=e, errors="replace")
    except subprocess.TimeoutExpired as ex:
        # a hang: what was printed before it tells which operation never returned
        def txt(b):
            return b if isinstance(b, str) else (b or b"").decode("utf-8", "replace")
        return "timeout", txt(ex.stdout), txt(ex.stderr)[-2000:]
    return p.returncode, p.stdout, p.stderr


def run_model(opfile, timeout=600):
    exe = cvbuild.driver_exe()
    p = subprocess.run([exe, opfile], stdout=subprocess.PIPE, stderr=subprocess.PIPE, text=True, timeout=timeout)
    return p.returncode, p.stdout, p.stderr


# ---------------------------------------------------------------------------------------------
# Lean audit: build, forbidden-token grep, axioms of every property theorem
# ---------------------------------------------------------------------------------------------
FORBIDDEN = re.compile(r"\bsorry\b|\badmit\b|^\s*axiom\s|native_decide|bv_decide|implemented_by|\bunsafe\s|maxHeartbeats\s+0")
ALLOWED_AXIOMS = {"propext", "Classical.choice", "Quot.sound"}


def strip_comments(src):
    src = re.sub(r"/-.*?-/", "", src, flags=re.S)
    src = re.sub(r"--.*", "", src)
    return src


def import_closure(prop):
    """project files reachable from CvProps/<prop>.lean through imports (plus the driver, which runs the model)"""
    seen, todo = set(), ["CvProps.%s" % prop, "Main"]
    while todo:
        m = todo.pop()
        path = os.path.join(LEAN, m.replace(".", "/") + ".lean")
        if m in seen or not os.path.exists(path):
            continue
        seen.add(m)
        for im in re.findall(r"^\s*import\s+(\S+)", open(path).read(), flags=re.M):
            todo.append(im)
    return [os.path.join(LEAN, m.replace(".", "/") + ".lean") for m in sorted(seen)]


def grep_forbidden(prop):
    hits = []
    for path in import_closure(prop):
        body = strip_comments(open(path).read())
        for i, line in enumerate(body.splitlines(), 1):
            if FORBIDDEN.search(line):
                hits.append("%s: %s" % (os.path.relpath(path, LEAN), line.strip()))
    return hits


def theorems_of(prop):
    """names of the theorems in lean/CvProps/<prop>.lean (all of them are property theorems)"""
    path = os.path.join(LEAN, "CvProps", prop + ".lean")
    if not os.path.exists(path):
        return []
    body = strip_comments(open(path).read())
    # a second file of property theorems (<prop>b.lean), when <prop>.lean imports it
    pathb = os.path.join(LEAN, "CvProps", prop + "b.lean")
    if os.path.exists(pathb) and re.search(r"^import\s+CvProps\.%sb\s*$" % prop, body, flags=re.M):
        body = body + "\n" + strip_comments(open(pathb).read())
    names = []
    ns = []
    for line in body.splitlines():
        m = re.match(r"\s*namespace\s+(\S+)", line)
        if m:
            ns.append(m.group(1))
        m = re.match(r"\s*end\s+(\S+)", line)
        if m and ns and ns[-1] == m.group(1):
            ns.pop()
        if re.match(r"\s*private\s+theorem", line):
            continue      # bridge lemmas: their axioms are those of the public theorems that use them
        m = re.match(r"\s*(?:protected\s+)?theorem\s+([^\s:({\[]+)", line)
        if m:
            names.append(".".join(ns + [m.group(1)]))
    return names


def audit(prop):
    """Returns dict(ok, obligations, discharged, theorems, axioms, problems[])"""
    problems = []
    rc, out, tmsgs = cvbuild.build_lean(["CvModel", "CvDriver", "cvdriver", "CvProps.%s" % prop])
    build_ok = rc == 0
    if not build_ok:
        errs = [l for l in out.splitlines() if "error" in l][:20]
        problems.append({"kind": "lean-build", "detail": errs or out[-2000:].splitlines()})
    hits = grep_forbidden(prop)
    if hits:
        problems.append({"kind": "forbidden-token", "detail": hits})
    names = theorems_of(prop)
    axioms = {}
    discharged = 0
    if names:
        tmp = os.path.join(cvbuild.CACHE, "audit_%s_%d.lean" % (prop, os.getpid()))
        with open(tmp, "w") as f:
            f.write("import CvProps.%s\n" % prop)
            for n in names:
                f.write("#print axioms %s\n" % n)
        rc2, out2 = cvbuild.run(["lake", "env", "lean", tmp], cwd=LEAN, timeout=1800)
        os.unlink(tmp)
        cur = None
        # output: "'name' depends on axioms: [a, b]" or "'name' does not depend on any axioms"
        joined = out2.replace("\n ", " ").replace(",\n", ", ")
        for m in re.finditer(r"'([^']+)' (does not depend on any axioms|depends on axioms: \[([^\]]*)\])", joined, flags=re.S):
            nm = m.group(1)
            ax = [] if m.group(3) is None else [a.strip() for a in m.group(3).replace("\n", " ").split(",") if a.strip()]
            axioms[nm] = ax
        for n in names:
            if n not in axioms:
                problems.append({"kind": "theorem-not-checked", "theorem": n,
                                 "detail": [l for l in out2.splitlines() if "error" in l][:5]})
                continue
            bad = [a for a in axioms[n] if a not in ALLOWED_AXIOMS]
            if bad:
                problems.append({"kind": "axiom", "theorem": n, "detail": bad})
            else:
                discharged += 1
    else:
        problems.append({"kind": "no-theorems", "detail": ["lean/CvProps/%s.lean has no theorem" % prop]})
    return {"ok": not problems, "obligations": len(names), "discharged": discharged, "theorems": names,
            "axioms": axioms, "problems": problems, "translator": tmsgs}


def leanchecker(prop):
    rc, out = cvbuild.run(["lake", "env", "leanchecker", "CvProps.%s" % prop], cwd=LEAN, timeout=3600)
    return rc == 0, out[-1500:]


# ---------------------------------------------------------------------------------------------
# known findings, evidence, verdict
# ---------------------------------------------------------------------------------------------
def load_known():
    p = os.path.join(VERIF, "known_findings.json")
    if not os.path.exists(p):
        return []
    return json.load(open(p)).get("findings", [])


def write_replay(prop, name, content):
    os.makedirs(REPLAYS, exist_ok=True)
    path = os.path.join(REPLAYS, "%s_%s.txt" % (prop, name))
    with open(path, "w") as f:
        f.write(content)
    return path


TRUSTED_BASE = [
    "Lean 4.33 kernel; Mathlib v4.33 as compiled in the image",
    "axioms: propext, Classical.choice, Quot.sound only (audited by #print axioms on every run); no native_decide, bv_decide, sorry or own axioms",
    "hand-written Lean model of the anchored C++ (modelled, not verified); tied to /repo's working tree by the correspondence harness on sampled inputs",
    "correspondence harness (harness/*.cpp, engine simulator colvarproxy_verif), comparer tolerance rel 1e-9 / abs 1e-11 on doubles, exact on integers",
    "IEEE-754 rounding, libm and libstdc++ number formatting are not modelled: theorems are over the reals",
]


class Report:
    """Collects what one check run did; prints VIOLATION / KNOWN-FINDING lines; writes evidence."""

    def __init__(self, prop, tier, seed):
        self.prop, self.tier, self.seed = prop, tier, seed
        self.t0 = time.time()
        self.violations = []      # (replay_path, suffix, what)
        self.known_hits = []
        self.cov = {"evaluations": 0, "distinct_nontrivial": 0, "traces_validated_against_impl": 0,
                    "samples": [], "rule": ""}
        self.extra = {}
        self.assumptions = []
        self.known = [k for k in load_known() if k.get("property") == prop and k.get("status") == "open"]

    def violation(self, what, replay_content, name, found_input=True, signature=None):
        for k in self.known:
            if signature is not None and k.get("signature") == signature:
                if signature not in [h[0] for h in self.known_hits]:
                    self.known_hits.append((signature, k.get("what", what)))
                return False
        path = write_replay(self.prop, name, replay_content)
        self.violations.append((path, "" if found_input else " no-failing-input-found", what))
        return True

    def finish(self, level="proof"):
        cov = dict(self.cov)
        cov.update(self.extra)
        ev = {"property_id": self.prop, "tier": self.tier, "seed": self.seed, "level": level,
              "coverage": cov, "assumptions": self.assumptions, "wall_s": round(time.time() - self.t0, 2),
              "violations": len(self.violations)}
        os.makedirs(os.path.join(VERIF, "evidence"), exist_ok=True)
        with open(os.path.join(VERIF, "evidence", self.prop + ".json"), "w") as f:
            json.dump(ev, f, indent=1, default=str)
        for sig, what in self.known_hits:
            print("KNOWN-FINDING: property=%s %s [%s]" % (self.prop, what, sig))
        for path, suffix, what in self.violations:
            print("# %s" % what)
            print("VIOLATION property=%s replay=%s%s" % (self.prop, path, suffix))
        if not self.violations:
            print("OK property=%s tier=%s seed=%d wall=%.1fs evaluations=%d obligations=%s" % (
                self.prop, self.tier, self.seed, time.time() - self.t0, cov.get("evaluations", 0),
                cov.get("obligations")))
        return 1 if self.violations else 0
