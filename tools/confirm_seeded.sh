#!/bin/bash
# usage: confirm_seeded.sh <PROP> <n>   — confirms the mutant left in /tmp/wt-<PROP> and stores it as seeded/<PROP>-<n>
# (patched: builds, suite passes, demo fails; unpatched: demo passes)
set -u
P=$1; N=$2; WT=/tmp/wt-$P; OUT=/verif/seeded/$P-$N
cd $WT || exit 2
[ -f demo/patch.diff ] || { echo "no patch.diff"; exit 2; }
git checkout -q -- src 2>/dev/null
git apply demo/patch.diff || { echo "patch does not apply"; exit 2; }
cmake -G Ninja -S cmake -B _build -DCMAKE_BUILD_TYPE=RelWithDebInfo -DCOLVARS_LEPTON=OFF -DCOLVARS_TCL=OFF >/dev/null 2>&1
cmake --build _build -j16 2>&1 | tail -1
CT=$(ctest --test-dir _build -j16 --timeout 900 2>&1 | grep "tests passed")
echo "patched ctest: $CT"
bash demo/run.sh >/tmp/demo-$P-patched.log 2>&1; RP=$?
echo "patched demo exit: $RP"
git checkout -q -- src
cmake --build _build -j16 2>&1 | tail -1
bash demo/run.sh >/tmp/demo-$P-clean.log 2>&1; RC=$?
echo "clean demo exit: $RC"
if [ $RP -ne 0 ] && [ $RC -eq 0 ] && echo "$CT" | grep -q "99% tests passed, 1 tests failed out of 93"; then
  mkdir -p $OUT && cp -r demo/* $OUT/ && rm -f $OUT/demo $OUT/*.o
  find $OUT -type f -size +500k -delete
  echo "CONFIRMED -> $OUT"
  exit 0
fi
echo "NOT CONFIRMED"; exit 1
