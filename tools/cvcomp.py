"""Configuration templates for real (multi-atom) components, shared by C01 / C02 / C07.

Atoms are numbered 1..NAT in the configuration (0..NAT-1 in the harness ops).  Every template names the atom groups it
uses so that the generators can attach group options (fitting, dummy atoms) and the oracles know which atoms matter."""
from cvscen import num

NAT = 14


def grp(name, atoms, opts=""):
    return "  %s {\n   atomNumbers %s\n%s  }\n" % (name, " ".join(str(a + 1) for a in atoms), opts)


def refpos(P, atoms):
    return " ".join("(%s, %s, %s)" % (num(P[a][0]), num(P[a][1]), num(P[a][2])) for a in atoms)


def vec(v):
    return "(%s)" % ", ".join(num(x) for x in v)


# name -> (kind, function(rng, P) -> (component text without the trailing brace options, groups used (lists of atoms)), value type)
EXTRA = {}        # components used by single checks only (C07: rmsd with an atomPermutation line)


def make_components():
    C = {}

    def two(rng):
        a = rng.sample(range(NAT), rng.randint(1, 3)); rest = [i for i in range(NAT) if i not in a]
        b = rng.sample(rest, rng.randint(1, 3))
        return a, b

    def many(rng, lo=4, hi=7):
        return rng.sample(range(NAT), rng.randint(lo, hi))

    def distance(rng, P, extra=""):
        a, b = two(rng)
        return "distance {\n%s%s%s" % (grp("group1", a), grp("group2", b), extra), [a, b]
    C["distance"] = ("scalar", distance)

    def distance_z(rng, P, extra=""):
        a, b = two(rng)
        ax = [rng.uniform(-1, 1) for _ in range(3)]
        return "distanceZ {\n%s%s  axis %s\n%s" % (grp("main", a), grp("ref", b), vec(ax), extra), [a, b]
    C["distanceZ"] = ("scalar", distance_z)

    def distance_z2(rng, P, extra=""):
        a, b = two(rng)
        c = rng.sample([i for i in range(NAT) if i not in a and i not in b], 2)
        return "distanceZ {\n%s%s%s%s" % (grp("main", a), grp("ref", b), grp("ref2", c), extra), [a, b, c]
    C["distanceZ_ref2"] = ("scalar", distance_z2)

    def distance_xy(rng, P, extra=""):
        a, b = two(rng)
        ax = [rng.uniform(-1, 1) for _ in range(3)]
        return "distanceXY {\n%s%s  axis %s\n%s" % (grp("main", a), grp("ref", b), vec(ax), extra), [a, b]
    C["distanceXY"] = ("scalar", distance_xy)

    def distance_xy2(rng, P, extra=""):
        a, b = two(rng)
        c = rng.sample([i for i in range(NAT) if i not in a and i not in b], 2)
        return "distanceXY {\n%s%s%s%s" % (grp("main", a), grp("ref", b), grp("ref2", c), extra), [a, b, c]
    C["distanceXY_ref2"] = ("scalar", distance_xy2)

    def distance_inv(rng, P, extra=""):
        a, b = two(rng)
        return "distanceInv {\n%s%s  exponent %d\n%s" % (grp("group1", a), grp("group2", b), rng.choice([2, 4, 6]), extra), [a, b]
    C["distanceInv"] = ("scalar", distance_inv)

    def distance_vec(rng, P, extra=""):
        a, b = two(rng)
        return "distanceVec {\n%s%s%s" % (grp("group1", a), grp("group2", b), extra), [a, b]
    C["distanceVec"] = ("vector3", distance_vec)

    def distance_dir(rng, P, extra=""):
        a, b = two(rng)
        return "distanceDir {\n%s%s%s" % (grp("group1", a), grp("group2", b), extra), [a, b]
    C["distanceDir"] = ("unit3", distance_dir)

    # the same distance-like components with minimum-image distances switched off (forceNoPBC): a separate code path in each
    def nopbc(f):
        return lambda rng, P, extra="": f(rng, P, "  forceNoPBC on\n" + extra)
    C["distance_nopbc"] = ("scalar", nopbc(distance))
    C["distanceVec_nopbc"] = ("vector3", nopbc(distance_vec))
    C["distanceDir_nopbc"] = ("unit3", nopbc(distance_dir))
    C["distanceZ_nopbc"] = ("scalar", nopbc(distance_z))
    C["distanceXY_nopbc"] = ("scalar", nopbc(distance_xy))
    C["distanceInv_nopbc"] = ("scalar", nopbc(distance_inv))

    def angle(rng, P, extra=""):
        s = rng.sample(range(NAT), 6)
        g = [s[0:2], s[2:3], s[3:6]]
        return "angle {\n%s%s%s%s" % (grp("group1", g[0]), grp("group2", g[1]), grp("group3", g[2]), extra), g
    C["angle"] = ("scalar", angle)

    def dipole_angle(rng, P, extra=""):
        s = rng.sample(range(NAT), 7)
        g = [s[0:3], s[3:5], s[5:7]]
        return "dipoleAngle {\n%s%s%s%s" % (grp("group1", g[0]), grp("group2", g[1]), grp("group3", g[2]), extra), g
    C["dipoleAngle"] = ("scalar", dipole_angle)

    def dihedral(rng, P, extra=""):
        s = rng.sample(range(NAT), 6)
        g = [s[0:1], s[1:3], s[3:4], s[4:6]]
        return "dihedral {\n%s%s%s%s%s" % (grp("group1", g[0]), grp("group2", g[1]), grp("group3", g[2]), grp("group4", g[3]), extra), g
    C["dihedral"] = ("scalar", dihedral)

    def polar_theta(rng, P, extra=""):
        a = many(rng, 2, 4)
        return "polarTheta {\n%s%s" % (grp("atoms", a), extra), [a]
    C["polarTheta"] = ("scalar", polar_theta)

    def polar_phi(rng, P, extra=""):
        a = many(rng, 2, 4)
        return "polarPhi {\n%s%s" % (grp("atoms", a), extra), [a]
    C["polarPhi"] = ("scalar", polar_phi)

    def dipole_magnitude(rng, P, extra=""):
        a = many(rng, 3, 6)
        return "dipoleMagnitude {\n%s%s" % (grp("atoms", a), extra), [a]
    C["dipoleMagnitude"] = ("scalar", dipole_magnitude)

    def gyration(rng, P, extra=""):
        a = many(rng)
        return "gyration {\n%s%s" % (grp("atoms", a), extra), [a]
    C["gyration"] = ("scalar", gyration)

    def inertia(rng, P, extra=""):
        a = many(rng)
        return "inertia {\n%s%s" % (grp("atoms", a), extra), [a]
    C["inertia"] = ("scalar", inertia)

    def inertia_z(rng, P, extra=""):
        a = many(rng)
        ax = [rng.uniform(-1, 1) for _ in range(3)]
        return "inertiaZ {\n%s  axis %s\n%s" % (grp("atoms", a), vec(ax), extra), [a]
    C["inertiaZ"] = ("scalar", inertia_z)

    def exps(rng):
        """even exponents, numerator smaller than denominator, ratios on both sides of 2 and 3"""
        en = rng.choice([2, 4, 6, 8])
        ed = en + 2 * rng.randint(1, en + 2)
        return en, ed

    def coordnum(rng, P, extra=""):
        a, b = two(rng)
        b = b + rng.sample([i for i in range(NAT) if i not in a and i not in b], 2)
        en, ed = exps(rng)
        return "coordNum {\n%s%s  cutoff %s\n  expNumer %d\n  expDenom %d\n%s" % (
            grp("group1", a), grp("group2", b), num(rng.uniform(1.5, 3.0)), en, ed, extra), [a, b]
    C["coordNum"] = ("scalar", coordnum)

    def coordnum_aniso(rng, P, extra=""):
        a, b = two(rng)
        return "coordNum {\n%s%s  cutoff3 (%s, %s, %s)\n%s" % (
            grp("group1", a), grp("group2", b), num(rng.uniform(1.5, 3.0)), num(rng.uniform(1.5, 3.0)), num(rng.uniform(1.5, 3.0)), extra), [a, b]
    C["coordNum_aniso"] = ("scalar", coordnum_aniso)

    def coordnum_g2center(rng, P, extra=""):
        a, b = two(rng)
        return "coordNum {\n%s%s  cutoff %s\n  group2CenterOnly on\n%s" % (grp("group1", a), grp("group2", b), num(rng.uniform(1.5, 3.0)), extra), [a, b]
    C["coordNum_g2center"] = ("scalar", coordnum_g2center)

    def coordnum_tol(rng, P, extra=""):
        a, b = two(rng)
        b = b + rng.sample([i for i in range(NAT) if i not in a and i not in b], 2)
        return "coordNum {\n%s%s  cutoff %s\n  tolerance %s\n  pairListFrequency 1\n%s" % (
            grp("group1", a), grp("group2", b), num(rng.uniform(2.5, 4.0)), num(rng.choice([0.001, 0.01, 0.05])), extra), [a, b]
    C["coordNum_tol"] = ("scalar", coordnum_tol)

    def selfcoordnum_tol(rng, P, extra=""):
        a = many(rng, 3, 6)
        return "selfCoordNum {\n%s  cutoff %s\n  tolerance %s\n  pairListFrequency 1\n%s" % (
            grp("group1", a), num(rng.uniform(2.5, 4.0)), num(rng.choice([0.001, 0.01, 0.05])), extra), [a]
    C["selfCoordNum_tol"] = ("scalar", selfcoordnum_tol)

    def selfcoordnum(rng, P, extra=""):
        a = many(rng, 3, 6)
        en, ed = exps(rng)
        return "selfCoordNum {\n%s  cutoff %s\n  expNumer %d\n  expDenom %d\n%s" % (grp("group1", a), num(rng.uniform(1.5, 3.0)), en, ed, extra), [a]
    C["selfCoordNum"] = ("scalar", selfcoordnum)

    def groupcoord(rng, P, extra=""):
        a, b = two(rng)
        en, ed = exps(rng)
        return "groupCoord {\n%s%s  cutoff %s\n  expNumer %d\n  expDenom %d\n%s" % (grp("group1", a), grp("group2", b), num(rng.uniform(1.5, 3.0)), en, ed, extra), [a, b]
    C["groupCoord"] = ("scalar", groupcoord)

    def hbond(rng, P, extra=""):
        s = rng.sample(range(NAT), 2)
        en, ed = exps(rng)
        return "hBond {\n  acceptor %d\n  donor %d\n  cutoff %s\n  expNumer %d\n  expDenom %d\n%s" % (s[0] + 1, s[1] + 1, num(rng.uniform(2.0, 3.5)), en, ed, extra), [[s[0]], [s[1]]]
    C["hBond"] = ("scalar", hbond)

    def rmsd(rng, P, extra=""):
        a = sorted(many(rng, 4, 8))
        R = [[x + rng.uniform(-0.5, 0.5) for x in P[i]] for i in range(NAT)]
        return "rmsd {\n%s  refPositions %s\n%s" % (grp("atoms", a), refpos(R, a), extra), [a]
    C["rmsd"] = ("scalar", rmsd)

    def rmsd_perm(rng, P, extra=""):
        """rmsd with one atomPermutation line; the reference is the current geometry with two atoms exchanged (plus noise), so that the
        permuted reference is the one that fits"""
        a = sorted(many(rng, 4, 7))
        sw = list(range(len(a))); sw[0], sw[1] = sw[1], sw[0]
        R = {a[i]: [x + rng.uniform(-0.2, 0.2) for x in P[a[sw[i]]]] for i in range(len(a))}
        RR = [R.get(i, P[i]) for i in range(NAT)]
        return "rmsd {\n%s  refPositions %s\n  atomPermutation %s\n%s" % (grp("atoms", a), refpos(RR, a), " ".join(str(a[sw[i]] + 1) for i in range(len(a))), extra), [a]
    EXTRA["rmsd_perm"] = ("scalar", rmsd_perm)

    def rot_fit_opts(rng, P, used):
        """options that make a group be seen in the frame of a separate fitting group (its own atoms are not among the fitting atoms);
        the reference of the fitting group is the current geometry turned by a sizeable rotation"""
        import math
        fit = rng.sample([i for i in range(NAT) if i not in used], 4)
        th = rng.uniform(0.5, 2.5); ax = [rng.uniform(-1, 1) for _ in range(3)]; n_ = math.sqrt(sum(x * x for x in ax)); ax = [x / n_ for x in ax]
        def rotv(v):
            c, s_ = math.cos(th), math.sin(th)
            d = sum(a * b for a, b in zip(ax, v))
            cr = [ax[1] * v[2] - ax[2] * v[1], ax[2] * v[0] - ax[0] * v[2], ax[0] * v[1] - ax[1] * v[0]]
            return [v[i] * c + cr[i] * s_ + ax[i] * d * (1 - c) for i in range(3)]
        R = {i: rotv(P[i]) for i in fit}
        RR = [R.get(i, P[i]) for i in range(NAT)]
        return ("   centerToReference on\n   rotateToReference on\n   fittingGroup {\n    atomNumbers %s\n   }\n   refPositions %s\n"
                % (" ".join(str(a + 1) for a in sorted(fit)), refpos(RR, sorted(fit)))), fit

    def distance_z_rot(rng, P, extra=""):
        a, b = two(rng)
        o, fit = rot_fit_opts(rng, P, a + b)
        ax = [rng.uniform(-1, 1) for _ in range(3)]
        g = grp("main", a)
        g = g.replace("\n", "\n" + o, 1) if False else g[:g.rindex("  }")] + o + "  }\n"
        return "distanceZ {\n%s%s  axis %s\n%s" % (g, grp("ref", b), vec(ax), extra), [a, b, fit]
    EXTRA["distanceZ_rot"] = ("scalar", distance_z_rot)

    def distance_rot(rng, P, extra=""):
        a, b = two(rng)
        o, fit = rot_fit_opts(rng, P, a + b)
        g = grp("group1", a)
        g = g[:g.rindex("  }")] + o + "  }\n"
        return "distance {\n%s%s%s" % (g, grp("group2", b), extra), [a, b, fit]
    EXTRA["distance_rot"] = ("scalar", distance_rot)

    def eigenvector(rng, P, extra=""):
        a = sorted(many(rng, 4, 7))
        R = [[x + rng.uniform(-0.3, 0.3) for x in P[i]] for i in range(NAT)]
        V = [[rng.uniform(-1, 1) for _ in range(3)] for _ in range(NAT)]
        return "eigenvector {\n%s  refPositions %s\n  vector %s\n%s" % (grp("atoms", a), refpos(R, a), refpos(V, a), extra), [a]
    C["eigenvector"] = ("scalar", eigenvector)

    def orient(kind):
        def f(rng, P, extra=""):
            a = sorted(many(rng, 4, 8))
            R = [[x + rng.uniform(-0.5, 0.5) for x in P[i]] for i in range(NAT)]
            ax = ""
            if kind in ("tilt", "spinAngle"):
                ax = "  axis %s\n" % vec([rng.uniform(-1, 1) for _ in range(3)])
            return "%s {\n%s  refPositions %s\n%s%s" % (kind, grp("atoms", a), refpos(R, a), ax, extra), [a]
        return f
    for k in ("orientationAngle", "orientationProj", "tilt", "spinAngle", "eulerPhi", "eulerTheta", "eulerPsi"):
        C[k] = ("scalar", orient(k))
    C["orientation"] = ("quaternion", orient("orientation"))

    def cartesian(rng, P, extra=""):
        a = sorted(many(rng, 2, 3))
        return "cartesian {\n%s%s" % (grp("atoms", a), extra), [a]
    C["cartesian"] = ("vector", cartesian)
    return C


COMPONENTS = make_components()
# total-force measurement exists for these (C07)
WITH_TOTAL_FORCE = ["distance", "distanceZ", "distanceZ_ref2", "distanceXY", "angle", "dihedral", "gyration", "rmsd", "eigenvector"]
PERIODIC = {"dihedral": 360.0, "polarPhi": 360.0, "spinAngle": 360.0, "eulerPhi": 360.0, "eulerPsi": 360.0}
