#!/usr/bin/env python3
"""Regenerates /verif/MANIFEST.json from the table below (kept valid at all times)."""
import json, os
VERIF = os.path.dirname(os.path.dirname(os.path.abspath(__file__)))

CLAIMED = {
 # id: (technique, level text, level note, design section)
 "C04": ("Lean 4 theorems (history induction over the ABF update machine) + differential correspondence with colvarbias_abf through the engine simulator, closed-loop total forces, both timing conventions",
         "Proof: 16 theorems — for every history the count of each bin is the number of recorded samples attributed to it and the stored gradient is minus their sum (so gradient/count = minus the mean); which sample is recorded (late total forces: bin of the previous step, ABF force applied then removed unless the variable subtracts applied forces; same-step: current bin, nothing removed; none at ineligible steps); applied force zero outside the grid / applyBias off, equals ramp(count) x mean inside, capped by maxForce, zero-mean over a fully sampled periodic 1-D grid; ramp shape. Tied to the code by running the real bias under the simulator (1-3 variables, other biases on the same variables with/without subtractAppliedForce, grid exits, run boundaries) and comparing counts, gradients, total forces, applied forces and energy each step; an independent recount is the oracle.",
         "Model hand-written (CvModel/Abf.lean + Module.lean). Variables are value-injected distanceZ components (Jacobian term 0), so hideJacobian and eABF/CZAR, pABF and shared ABF are outside this check (shared ABF: C14). wf_step needs maxForce to have one entry per variable (the code rejects other lengths). Floating point not modelled.",
         "DESIGN.md §4 C04"),
 "C05": ("Lean 4 theorems (deposition schedule, hill-sum identities, derivative of the truncated Gaussian, grid invariant by induction over histories, exact re-indexing on expansion) + differential correspondence with colvarbias_meta under the engine simulator",
         "Proof: 14 theorems — a hill is deposited exactly at eligible multiples of newHillFrequency, centred at that step's values with the configured widths and height (times exp(-V/k dT) for well-tempered, V the bias at the deposition point); without grids energy and force are the sums over all hills; the force of a hill is minus the derivative of its energy inside the truncation radius; with grids every bin holds the sum of the tabulated hills evaluated at its centre after any history (keepHills on or off), the reported energy is the bin value plus the untabulated hills at the actual position inside the grid and the analytic edge hills outside; grid expansion is an exact re-indexing that keeps bin centres. Tied to the code on 1-2 variables (periodic or not), grid frequency equal to / a multiple of the hill frequency, hillWidth / gaussianSigmas, well-tempered, expandBoundaries, excursions beyond the grid, run boundaries; oracle = analytic hill sum.",
         "Model hand-written (CvModel/Meta.lean). The hill is the code's truncated Gaussian (exponent cut at 23). grid_invariant is proved without expansion; bins added by expansion lack the tails of older hills by design (buffer 3*floor(hillWidth)+1 bins). Rebinning from kept hills at restart, ebMeta and multiple walkers are not modelled here (walkers: C14). Two defects repaired by fix: commits; one open finding (gaussianSigmas buffer) in known_findings.json.",
         "DESIGN.md §4 C05"),
 "C06": ("Lean 4 theorems (closed forms with HasDerivAt, schedule invariants by induction over arbitrary run segmentations, work and TI bookkeeping) + differential correspondence with harmonic/harmonicWalls/linear restraints under the engine simulator incl. save/load",
         "Proof: 20 theorems — documented closed forms of harmonic (shortest-image), one/two-sided and periodic closest-wall, and linear potentials with force = minus derivative; continuous centre and force-constant schedules are functions of the absolute step alone; for every history of ordinary steps, repeated step-0 of new runs and restarts from saved state, the staged force-constant schedule has stage = min(T/n, stages) with the prescribed k, and staged centres have performed min((T-1)/n+1, stages+1) updates and sit at the interpolated value; per-step work increment formula, no work after the schedule, none on repeated steps; which steps the staged-TI accumulator samples and what it is divided by. Tied to the code on enumerated (kind, schedule) pairs with random segmentations (boundaries concentrated on stage switches), exact comparison of centres/k/stage/work/TI lines, plus a closed-form oracle.",
         "Model hand-written (CvModel/Restraint.lean, RestraintRun.lean), scalar (possibly periodic) variables; vector/unit-vector/quaternion harmonic energies rest on the C18 metric theorems; histogramRestraint and ABMD not modelled yet. Seven genuine defects found through this check were repaired by fix: commits (see known_findings.json). ti_output needs targetEquilSteps >= 0 (negation of the unrestricted statement proved on a witness). Floating point, 14-digit state files not modelled.",
         "DESIGN.md §4 C06"),
 "C08": ("Lean 4 theorems about the per-step machine of the module (additivity of energy and per-atom forces over the bias list, independence of bias evolution, awake/asleep, impulse) + differential correspondence and an (A+B) = A + B oracle on the real library",
         "Proof: 7 theorems — one step with biases A++B gives energy and per-atom forces equal to the sums for A and for B from the same state and each bias evolves as in its own subset; for whole histories the same holds at every step when no bias reads total forces; a sleeping bias is not updated and contributes nothing, a histogram never contributes; an awake bias with factor n applies n times its instantaneous force and over n steps delivers the impulse of applying it every step. Tied to the code by running random sets of 2-4 biases (harmonic, walls, linear, histogram, metadynamics, ABF) with factors 1-4 together and split in two instances, comparing with the model and checking sums and closed-form impulses on the implementation's own outputs.",
         "Model hand-written (CvModel/Module.lean): value-injected scalar variables; time-step factors on biases only (variables keep factor 1). ABF coupling through subtractAppliedForce is exercised by the correspondence, not covered by superpose_run (which assumes biases ignore total forces). Scripted forces not modelled (Tcl not built). Floating point not modelled.",
         "DESIGN.md §4 C08"),
 "C11": ("Lean 4 theorems about byte-level models of cvm::memory_stream and of the state-file replacement protocol + differential correspondence (bytes, cursor, stream state; crash outcomes under libc fault injection)",
         "Proof: 14 theorems — exact round trip for every element size/length and for sequences of writes, no out-of-bounds read for any buffer/cursor/length prefix (incl. byte counts wrapping 2^64), every strict prefix of a serialised object is an error, crash invariant of backup-rename/open/write*/close for every crash point and chunking, plus machine-checked witnesses of the two repaired defects and of the double-crash finding. Tied to the code by byte-exact comparison on generated and systematic corrupted streams, by loading truncated/bit-flipped real state files, and by killing the real process at every file operation.",
         "Models hand-written (CvModel/MemStream.lean, FileSys.lean). Memory safety of the callers is evidence from sampled runs, not proof. Crash = _exit at interposed libc calls; OS cache/power-loss semantics not modelled. Two defects repaired by fix: commits (43b054d1, f6c58e21); two open findings in known_findings.json (double crash; binary metadynamics block cut at a hill boundary).",
         "DESIGN.md §4 C11"),
 "C13": ("Lean 4 theorems about a model of the dependency engine over feature tables regenerated from the source by a translator on every run (decide-obligations on the tables; properties of enable/disable/decr) + replay of enable/disable on snapshots of the real graph through the model + invariants and define/delete identity evaluated on the real objects",
         "Proof: 13 theorems — on the regenerated tables: every feature initialised, all indices in range, exclusions symmetric, requires_self/requires_alt chains acyclic (the termination argument the code's comment says is missing), 'active' first; on the engine: a dry run changes nothing, a feature excluded by an enabled one / unavailable / non-dynamic-by-dependency cannot be enabled and nothing changes, an enabled feature gains one reference per dependant, disable refuses while more than one dependant remains, releasing one of several references keeps the feature, static/user features are never auto-disabled. The translator's tables are cross-checked against the running library's; enable/disable calls on snapshots of the real graph (incl. the reference counts leaked by failed enables) are replayed through the model and compared field by field; after every operation of random define/delete/reset/step sequences the consistency conditions and atom reference counts are evaluated on the real graph, and survivors are compared with an instance that only ever had them.",
         "Partial: the define/delete identity and the global consistency invariant are checked on the implementation (oracle), not proved on a module-level model; fuel-indexed recursion (fuel 64). One open finding (variable left inactive after its last bias is deleted) in known_findings.json.",
         "DESIGN.md §4 C13"),
 "C15": ("Lean 4 theorems (bins over the reals, index arithmetic over Int, histogram counts by induction over histories) + differential correspondence with colvar_grid and the histogram bias",
         "Proof: 17 theorems — the assigned bin is the unique i with lo+i*w <= x < lo+(i+1)*w, bin centre lies in its bin, index_ok characterisation, address range/injectivity/surjectivity, incr enumerates every address exactly once in order, periodic wrap, sizes from boundaries, and for every history the total count equals the number of eligible in-range samples and each bin holds the samples that address it. Tied to the code on generated grids (edges, outside, 1-3 D) and on real histogram biases driven by injected value histories incl. run boundaries and custom grid blocks.",
         "Model hand-written (CvModel/Grid.lean). Partial: grid-file round trips (multicolumn/restart/raw) are not modelled yet; gatherVectorColvars cannot be configured at the pinned commit (histogram init enables the scalar-variables requirement unconditionally), so the vector-histogram theorem has no implementation counterpart to compare with. Floating point not modelled.",
         "DESIGN.md §4 C15"),
 "C17": ("Lean 4 theorems (exact shadow-energy invariant of the integrator, reflection, force routing, repeated-step reversion, time origin, parameter formulas) + differential correspondence with the extended-Lagrangian code path under the engine simulator with a seeded Gaussian source",
         "Proof: 12 theorems — for every time step, force constant and mass, frictionless integration with a static variable and constant bias force conserves E_kin + E_coupling - f.x - h^2 k^2/(8m) d^2 exactly (no drift; fluctuation second order in h); the coordinate is inside its reflecting boundaries unless the code raises its own error; atoms feel only the coupling spring (times the factor) plus bypassing biases while biases act on the extended coordinate; a repeated step restores the reported coordinate/velocity and re-executing it is idempotent; reported value/velocity are those left by the previous integration; k and m from fluctuation and time constant give period tau. Tied to the code by comparing value, velocity, both energies, bias force, atom force and next state at every step (friction 0 and non-zero, reflections, harmonic + bypassing walls biases, repeated steps, save/load).",
         "Model hand-written (CvModel/ExtLag.lean); one scalar non-periodic variable, own time-step factor 1, driven external parameters (alchemical) not modelled. The engine simulator's Gaussian source (SplitMix64 + Box-Muller) is re-implemented in the driver. Floating point not modelled (comparison at 1e-9).",
         "DESIGN.md §4 C17"),
 "C18": ("Lean 4 theorems over the reals about a hand-written model of the value metric + differential correspondence with colvarvalue/colvar::dist2/wrap",
         "Proof: 29 theorems (non-negativity, symmetry incl. the half-period tie, zero iff equivalent, period / quaternion-sign invariance, gradient = derivative via HasDerivAt, wrap range/equivalence/idempotence, interpolation end points and manifold) hold for all real inputs of the model; the model is tied to the C++ by running both on generated and edge-case pairs every run.",
         "Model hand-written (CvModel/Value.lean), not extracted; floating point not modelled (theorems over R, comparison at 1e-9 relative); quaternion PI constant instantiated with Real.pi in theorems; periodic variables exercised through distanceZ with period/wrapAround.",
         "DESIGN.md §4 C18"),
 "C19": ("Lean 4 theorems about a model of what is written (columns per output flag set, line schedule with the label flag, running average / deviation) + differential correspondence on the real trajectory and running-average files + per-file oracle",
         "Proof: 9 theorems — for every combination of the output flags of a variable (incl. extended-Lagrangian) and of a bias, the fields of a data line are exactly the columns announced by the label line, in the same order, hence so is the whole line; the data lines of any run are exactly the steps that are multiples of the frequency, in order, stamped with that step; starting from initialisation every data line follows a label line written for the very same set of columns (configuration changes in mid-run included); the running average is the arithmetic mean and the written deviation the sample standard deviation of the last runAveLength values, and nothing is written before the window is full. Tied to the code by predicting every label and data line (step, column count, label strings) of real trajectory files over all flag sets, frequencies 1-4, starts off the schedule, mid-run additions and repeated steps, and every running-average line; the oracle checks columns vs preceding label, schedule and textbook statistics on the files themselves.",
         "Model hand-written (CvModel/Output.lean). Partial: time-correlation functions, work/energy/centre column *values* (C06 covers the values; here only the columns) and number formatting are not modelled. Two running-average defects repaired by fix: commits. The running-average file stamps lines with the step relative to the run start (as the code does).",
         "DESIGN.md §4 C19"),
 "C20": ("Lean 4 theorems about the dispatch model over a command table regenerated from the source by a translator on every run (plus decide-obligations on that table) + differential correspondence of outcome classes + query-vs-engine oracle",
         "Proof: 11 theorems — the dispatcher is total; a command body runs only with min <= nargs <= max and nargs equals the words after the command words, so every guarded argument access is in range; unknown module commands, commands on missing objects and wrong arities are errors that never reach a body; the regenerated table has distinct names, min <= max and reachable prefixes (re-decided whenever colvarscript_commands*.h changes). The translator's output is cross-checked against the table of the running library. Sequences of well-formed and malformed commands (all 86 commands, wrong arity, empty/huge/non-numeric arguments, missing objects) interleaved with steps, deletions and additions are run through run_colvarscript_command and the outcome class compared with the model; values, gradients, applied forces, atom forces, atom ids and energy returned by queries are compared with the engine-side arrays of the same step.",
         "Partial: the 86 command bodies are not modelled (their numbers are checked by the oracle only; memory safety of bodies is evidence from sampled runs). Outcome classes of rejected calls are read from the dispatcher's messages. cv getenergy prints 6 significant digits; compared at that precision.",
         "DESIGN.md §4 C20"),
}

PENDING_REASON = "check not built yet in this round (model/theorems/correspondence under construction; see DESIGN.md §4)"
ALL = ["C%02d" % i for i in range(1, 21)]


def main():
    checks = []
    for pid in ALL:
        if pid not in CLAIMED:
            continue
        tech, text, note, ref = CLAIMED[pid]
        checks.append({
            "property_id": pid,
            "quick_cmd": "./check %s --tier quick" % pid,
            "thorough_cmd": "./check %s --tier thorough" % pid,
            "evidence_file": "/verif/evidence/%s.json" % pid,
            "replay_cmd_template": "./check %s --replay {path}" % pid,
            "engine": "lean4+harness",
            "level_claimed": {"category": "proof", "text": text, "design_ref": ref},
            "level_note": note,
            "technique": tech,
        })
    m = {
        "version": 1,
        "setup_cmd": "python3 tools/cvbuild.py lib harness lean",
        "hooks": {
            "guard": "COLVARS_VERIF",
            "enable": "cmake -DCMAKE_CXX_FLAGS=-DCOLVARS_VERIF (tools/cvbuild.py builds /repo/cmake out of tree under /verif/.cache)",
            "baseline_off_cmd": "cmake --build /repo/_build && ctest --test-dir /repo/_build -j8 --timeout 900",
            "source_commits": [],
            "add_only": True,
        },
        "engines": [{"name": "lean4+harness", "path": "/verif/check",
                     "serves_properties": sorted(CLAIMED),
                     "kind_free_text": "Lean 4 theorems about hand-written/regenerated models (lean/), C++ correspondence harness linking libcolvars built from /repo's working tree (harness/), Python generators/oracles (tools/props)"}],
        "checks": checks,
        "not_applicable": [{"property_id": p, "reason": PENDING_REASON} for p in ALL if p not in CLAIMED],
        "notes": "See DESIGN.md. Findings policy: known_findings.json (open findings print KNOWN-FINDING; fixed entries suppress nothing).",
    }
    with open(os.path.join(VERIF, "MANIFEST.json"), "w") as f:
        json.dump(m, f, indent=1)
    print("MANIFEST.json: %d checks, %d not claimed" % (len(checks), len(m["not_applicable"])))


if __name__ == "__main__":
    main()
