#!/usr/bin/env python3
"""Regenerates /verif/MANIFEST.json from the table below (kept valid at all times)."""
import json, os
VERIF = os.path.dirname(os.path.dirname(os.path.abspath(__file__)))

CLAIMED = {
 # id: (technique, level text, level note, design section)
 "C18": ("Lean 4 theorems over the reals about a hand-written model of the value metric + differential correspondence with colvarvalue/colvar::dist2/wrap",
         "Proof: 29 theorems (non-negativity, symmetry incl. the half-period tie, zero iff equivalent, period / quaternion-sign invariance, gradient = derivative via HasDerivAt, wrap range/equivalence/idempotence, interpolation end points and manifold) hold for all real inputs of the model; the model is tied to the C++ by running both on generated and edge-case pairs every run.",
         "Model hand-written (CvModel/Value.lean), not extracted; floating point not modelled (theorems over R, comparison at 1e-9 relative); quaternion PI constant instantiated with Real.pi in theorems; periodic variables exercised through distanceZ with period/wrapAround.",
         "DESIGN.md §4 C18"),
}

PENDING_REASON = "check not built yet in this round (model/theorems/correspondence under construction; see DESIGN.md §4)"
ALL = ["C%02d" % i for i in range(1, 21)]


def main():
    checks = []
    for pid in ALL:
        if pid not in CLAIMED:
            continue
        tech, text, note, ref = CLAIMED[pid]
        checks.append({
            "property_id": pid,
            "quick_cmd": "./check %s --tier quick" % pid,
            "thorough_cmd": "./check %s --tier thorough" % pid,
            "evidence_file": "/verif/evidence/%s.json" % pid,
            "replay_cmd_template": "./check %s --replay {path}" % pid,
            "engine": "lean4+harness",
            "level_claimed": {"category": "proof", "text": text, "design_ref": ref},
            "level_note": note,
            "technique": tech,
        })
    m = {
        "version": 1,
        "setup_cmd": "python3 tools/cvbuild.py lib harness lean",
        "hooks": {
            "guard": "COLVARS_VERIF",
            "enable": "cmake -DCMAKE_CXX_FLAGS=-DCOLVARS_VERIF (tools/cvbuild.py builds /repo/cmake out of tree under /verif/.cache)",
            "baseline_off_cmd": "cmake --build /repo/_build && ctest --test-dir /repo/_build -j8 --timeout 900",
            "source_commits": [],
            "add_only": True,
        },
        "engines": [{"name": "lean4+harness", "path": "/verif/check",
                     "serves_properties": sorted(CLAIMED),
                     "kind_free_text": "Lean 4 theorems about hand-written/regenerated models (lean/), C++ correspondence harness linking libcolvars built from /repo's working tree (harness/), Python generators/oracles (tools/props)"}],
        "checks": checks,
        "not_applicable": [{"property_id": p, "reason": PENDING_REASON} for p in ALL if p not in CLAIMED],
        "notes": "See DESIGN.md. Findings policy: known_findings.json (open findings print KNOWN-FINDING; fixed entries suppress nothing).",
    }
    with open(os.path.join(VERIF, "MANIFEST.json"), "w") as f:
        json.dump(m, f, indent=1)
    print("MANIFEST.json: %d checks, %d not claimed" % (len(checks), len(m["not_applicable"])))


if __name__ == "__main__":
    main()
