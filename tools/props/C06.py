"""C06 — restraints: closed-form potentials, schedules as functions of the step alone, work, staged TI."""
import math
from cvlib import fbits, bits_to_f, tok_val
from cvscen import inj_cv, cfg, pos, tf, num

RULE = ("harmonic / harmonicWalls / linear restraints on 1-2 injected scalar variables (periodic for harmonic and walls): fixed, "
        "moving centres (continuous, staged), changing force constant (continuous, staged, lambdaSchedule, decoupling, "
        "lambdaExponent 1/2/4, targetEquilSteps), accumulated work; every run is cut into random segments whose boundaries are "
        "either a repeated step 0 in the same instance or save + fresh instance + load; values inside, at and outside walls and "
        "across periodic boundaries; non-trivial = schedule active or wall touched; distinct by op text")
ASSUMPTIONS = ["scalar variables only at module level (vector / unit-vector / quaternion harmonic energies rely on the C18 metric, checked there)",
               "state files carry 14 significant digits: centres/force constants after a restart are compared at 1e-9 relative"]
COMPARE = {"tol_by_tag": {"ti": (2e-5, 1e-6)}}


def gen(rng, tier):
    n = 60 if tier == "quick" else 700
    cases = []
    for k in range(n):
        kind = ["harmonic", "harmonic", "harmonic", "walls", "walls", "linear"][k % 6]
        nd = rng.choice([1, 1, 2])
        w, per, wc = [], [], []
        conf = ""
        for i in range(nd):
            wi = rng.choice([0.5, 1.0, 2.0])
            P = 0.0; c = 0.0
            if kind != "linear" and rng.rand() < 0.3:
                P = rng.choice([4.0, 6.0, 360.0]); c = rng.choice([0.0, P / 2, 1.0])
            w.append(wi); per.append(P); wc.append(c)
            conf += inj_cv("x%d" % i, i, None, None, wi, P if P else None, c if P else None)
        names = " ".join("x%d" % i for i in range(nd))
        fk = rng.choice([0.5, 1.0, 3.0, 10.0])
        # schedule
        # (kind, mode) pairs are enumerated, not drawn, so that every schedule type is exercised in every run
        modes = ["fixed", "centers", "centers_staged", "k", "k_staged", "k_sched", "decouple", "decouple_staged"]
        mode = modes[(k // 6 + k) % 8]
        if kind == "walls" and mode.startswith("centers"):
            mode = ["k_staged", "decouple_staged", "k", "decouple"][(k // 6) % 4]
        nsteps = rng.randint(2, 6)
        nstages = rng.randint(1, 4)
        equil = rng.choice([0, 0, 1, nsteps - 1]) if nsteps > 1 else 0
        lexp = rng.choice([1.0, 1.0, 2.0, 4.0])
        work = mode in ("centers", "k", "decouple") and rng.rand() < 0.6
        sched = sorted([rng.rand() for _ in range(nstages + 1)]) if mode == "k_sched" else []
        if mode == "k_sched" and rng.rand() < 0.5:
            sched = sched[::-1]
        body = " name r\n colvars %s\n" % names
        kv = {}
        centers = [rng.uniform(-2, 2) for _ in range(nd)]
        target = [c + rng.uniform(-3, 3) for c in centers]
        targetk = rng.choice([0.0, 0.25, 2.0, 8.0])
        if kind in ("harmonic", "linear"):
            body += " forceConstant %s\n centers %s\n" % (num(fk), " ".join(num(c) for c in centers))
            kv["centers"] = centers
            k0 = fk; lk = uk = 1.0
        else:
            which = rng.choice(["lower", "upper", "both"]) if not any(per) else "both"
            lw = [rng.uniform(-2, 0) for _ in range(nd)]; uw = [l + rng.uniform(0.5, 3) for l in lw]
            lkc = rng.choice([fk, 2.0]); ukc = rng.choice([fk, 0.5])
            if which in ("lower", "both"):
                body += " lowerWalls %s\n lowerWallConstant %s\n" % (" ".join(num(x) for x in lw), num(lkc)); kv["lw"] = lw
            if which in ("upper", "both"):
                body += " upperWalls %s\n upperWallConstant %s\n" % (" ".join(num(x) for x in uw), num(ukc)); kv["uw"] = uw
            if which == "both":
                k0 = math.sqrt(lkc * ukc); lk = lkc / k0; uk = ukc / k0
            elif which == "lower":
                k0 = lkc; lk = 1.0; uk = 1.0
            else:
                k0 = ukc; lk = 1.0; uk = 1.0
            kv["lk"] = lk; kv["uk"] = uk
        startk = k0
        chgk = 0
        if mode in ("centers", "centers_staged"):
            body += " targetCenters %s\n targetNumSteps %d\n" % (" ".join(num(c) for c in target), nsteps)
            kv["target"] = target
            if mode == "centers_staged":
                body += " targetNumStages %d\n" % nstages
        elif mode in ("k", "k_staged", "k_sched"):
            body += " targetForceConstant %s\n targetNumSteps %d\n" % (num(targetk), nsteps)
            chgk = 1
            if mode == "k_staged":
                body += " targetNumStages %d\n" % nstages
            if mode == "k_sched":
                body += " lambdaSchedule %s\n" % " ".join(num(x) for x in sched)
        elif mode in ("decouple", "decouple_staged"):
            body += " decoupling on\n targetNumSteps %d\n" % nsteps
            chgk = 1; startk = 0.0; targetk = k0
            if mode == "decouple_staged":
                body += " targetNumStages %d\n" % nstages
        if chgk:
            if lexp != 1.0:
                body += " lambdaExponent %s\n" % num(lexp)
            if equil and mode in ("k_staged", "k_sched", "decouple_staged"):
                body += " targetEquilSteps %d\n" % equil
            else:
                equil = 0
        else:
            equil = 0; lexp = 1.0
        if work:
            body += " outputAccumulatedWork on\n"
        staged = mode in ("centers_staged", "k_staged", "k_sched", "decouple_staged")
        bname = {"harmonic": "harmonic", "walls": "harmonicWalls", "linear": "linear"}[kind]
        rconf = "%s {\n%s}\n" % (bname, body)
        it0 = rng.choice([0, 0, 7])
        lines = ["m.new %d" % nd] + (["m.opt it %d" % it0] if it0 else []) + [cfg(conf), cfg(rconf)]
        mcv = ["M.cv x%d %d %s %s %s 0" % (i, i, fbits(w[i]), fbits(per[i]), fbits(wc[i])) for i in range(nd)]

        def fl(l):
            return ",".join(fbits(x) for x in l)
        mr = "M.restr r %s %d %s k=%s startk=%s targetk=%s chgk=%d decoupling=%d lexp=%s nsteps=%d nstages=%d equil=%d work=%d lk=%s uk=%s" % (
            kind, nd, names, fbits(k0), fbits(startk), fbits(targetk if chgk else k0), chgk, 1 if mode.startswith("decouple") else 0,
            fbits(lexp), nsteps if mode != "fixed" else 0, nstages if staged and mode != "k_sched" else 0, equil, 1 if work else 0,
            fbits(kv.get("lk", 1.0)), fbits(kv.get("uk", 1.0)))
        for key in ("centers", "target", "lw", "uw"):
            if key in kv:
                mr += " %s=%s" % (key, fl(kv[key]))
        if sched:
            mr += " sched=%s" % fl(sched)
        setup_model = mcv + [mr]
        lines += setup_model
        nseg_total = nsteps * ((nstages + 2) if staged else 2) + rng.randint(0, 3)
        T = min(nseg_total, 30)
        hist = []
        cur = [rng.uniform(-2, 2) for _ in range(nd)]
        t = 0
        seg = 0
        while t < T:
            boundary = None
            # run boundaries everywhere, and preferentially on the steps where staged schedules switch
            pb = 0.5 if (staged and t > 0 and (t % nsteps) in (0, 1)) else 0.15
            if t > 0 and (not hist or hist[-1]["boundary"] is None) and rng.rand() < pb:
                boundary = rng.choice(["cont", "restart"])
            for i in range(nd):
                if boundary is not None:
                    break       # the engine repeats the step with the same coordinates
                r = rng.rand()
                if r < 0.7:
                    cur[i] += rng.uniform(-0.7, 0.7)
                elif kind == "walls" and r < 0.85:
                    ws = (kv.get("lw", []) + kv.get("uw", []))
                    cur[i] = ws[rng.randint(0, len(ws) - 1)] if ws else cur[i]
                else:
                    cur[i] = rng.uniform(-6, 6)
                lines.append(pos(i, rng.uniform(-1, 1), rng.uniform(-1, 1), cur[i]))
            if boundary == "restart":
                # stop here: save, fresh instance, load; the engine repeats the step as step 0 of the new run
                pfx = "/tmp/cv-c06-%d-%d" % (k, seg); seg += 1
                lines += ["m.save " + pfx, "m.new %d" % nd, cfg(conf), cfg(rconf)] + setup_model + ["m.load " + pfx]
                for i in range(nd):
                    lines.append(pos(i, 0.0, 0.0, cur[i]))
                lines.append("m.step")
            elif boundary == "cont":
                lines.append("m.step cont")
            else:
                lines.append("m.step")
                t += 1
            step_line = len(lines)
            lines.append("m.bias r")
            for i in range(nd):
                lines.append("m.cv x%d fa" % i)
            lines.append("r.dump r")
            hist.append({"x": list(cur), "boundary": boundary, "line": step_line})
        cases.append({"lines": lines, "meta": {"kind": kind, "mode": mode, "nd": nd, "w": w, "period": per, "wrap": wc, "k0": k0,
                                                "startk": startk, "targetk": targetk, "lexp": lexp, "nsteps": nsteps, "nstages": nstages,
                                                "equil": equil, "work": work, "sched": sched, "kv": kv, "it0": it0, "history": hist},
                      "nontrivial": mode != "fixed" or kind == "walls"})
    # ABMD ratchet and histogram restraint (CvModel/Ratchet.lean): energy and force at every step
    for k in range(12 if tier == "quick" else 120):
        if k % 2 == 0:
            dec = (k // 2) % 2 == 1
            kf = rng.choice([0.5, 2.0, 5.0]); stop = rng.uniform(0.5, 2.0) * (-1 if dec else 1)
            conf = inj_cv("x0", 0, None, None, 1.0)
            b = "abmd {\n name r\n colvars x0\n forceConstant %s\n stoppingValue %s\n%s}\n" % (num(kf), num(stop), " decreasing on\n" if dec else "")
            lines = ["m.new 1", "M.noclock", cfg(conf), cfg(b), "B.abmd r 0 %s %s %d" % (fbits(kf), fbits(stop), int(dec))]
            x = rng.uniform(-0.5, 0.5); hist = []
            for s_ in range(rng.randint(10, 30)):
                x += rng.uniform(-0.5, 0.6) * (-1 if dec else 1)
                lines += [pos(0, 0.0, 0.0, x), "m.step"]; sl = len(lines)
                lines += ["m.bias r", "b.force r"]
                hist.append({"x": x, "line": sl})
            cases.append({"lines": lines, "meta": {"kind": "abmd", "k": kf, "stop": stop, "dec": dec, "history": hist}, "nontrivial": True})
        else:
            nv = rng.randint(1, 3)
            lower = -2.0; width = 0.5; nb = 8
            sigma = rng.choice([0.3, 0.5, 1.0]); kf = rng.choice([1.0, 4.0])
            ref = [rng.uniform(0.0, 0.5) for _ in range(nb)]
            tot = sum(ref) * width
            ref = [r / tot for r in ref]          # a normalised reference (the bias rescales one that is not)
            conf = "".join(inj_cv("x%d" % i, i, None, None, 1.0) for i in range(nv))
            b = ("histogramRestraint {\n name r\n colvars %s\n lowerBoundary %s\n upperBoundary %s\n width %s\n gaussianSigma %s\n refHistogram %s\n forceConstant %s\n}\n"
                 % (" ".join("x%d" % i for i in range(nv)), num(lower), num(lower + nb * width), num(width), num(sigma), " ".join(num(r) for r in ref), num(kf)))
            lines = ["m.new %d" % nv, "M.noclock", cfg(conf), cfg(b),
                     "B.histr r %s %s %d %s %s %d %s %s" % (fbits(lower), fbits(width), nb, fbits(sigma), fbits(kf), nv, " ".join(str(i) for i in range(nv)), " ".join(fbits(r) for r in ref))]
            hist = []
            for s_ in range(rng.randint(5, 15)):
                xs = [rng.uniform(-2.5, 2.5) for _ in range(nv)]
                for i in range(nv):
                    lines.append(pos(i, 0.0, 0.0, xs[i]))
                lines.append("m.step"); sl = len(lines)
                lines += ["m.bias r", "b.force r"]
                hist.append({"x": xs, "line": sl})
            cases.append({"lines": lines, "meta": {"kind": "histr", "lower": lower, "width": width, "nb": nb, "sigma": sigma, "k": kf, "ref": ref, "history": hist},
                          "nontrivial": True})
    return cases + gen_tsf(rng, tier)


def gen_tsf(rng, tier):
    """moving centres of a restraint that has a time-step factor: at every step at which the restraint is evaluated its centre is the one
    the schedule prescribes for that step number"""
    cases = []
    for k in range(6 if tier == "quick" else 48):
        staged = k % 2 == 1
        n = [1, 2, 3][(k // 2) % 3]
        nsteps = rng.randint(4, 9); nstages = rng.randint(2, 3) if staged else 0
        c0 = rng.uniform(-1, 1); c1 = c0 + rng.choice([-1.0, 1.0]) * rng.uniform(2.0, 6.0)
        tl = " timeStepFactor %d\n" % n if n > 1 else ""
        b = ("harmonic {\n name r\n colvars x0\n centers %s\n targetCenters %s\n targetNumSteps %d\n%s forceConstant 1.0\n%s}\n"
             % (num(c0), num(c1), nsteps, " targetNumStages %d\n" % nstages if staged else "", tl))
        lines = ["m.new 1", "M.noclock", cfg(inj_cv("x0", 0, None, None, 1.0)), cfg(b)]
        total = nsteps * (nstages if staged else 1) + 2 * n + 3
        marks = []
        for t in range(total):
            lines += [pos(0, 0.0, 0.0, rng.uniform(-1, 1)), "m.step", "r.dump r"]; marks.append(len(lines))
        cases.append({"lines": lines, "meta": {"kind": "tsf", "staged": staged, "n": n, "nsteps": nsteps, "nstages": nstages, "c0": c0, "c1": c1, "marks": marks},
                      "nontrivial": n > 1})
    return cases


def oracle_tsf(m, out):
    n = m["n"]
    for t, ln in enumerate(m["marks"]):
        if n > 1 and t % n != 0:
            continue                      # the restraint sleeps: its centre is whatever the last evaluation left
        if m["staged"]:
            lam = (min(m["nstages"], (t - 1) // m["nsteps"]) / float(m["nstages"])) if t >= 1 else 0.0
        else:
            lam = min(t, m["nsteps"]) / float(m["nsteps"])
        want = m["c0"] + (m["c1"] - m["c0"]) * lam
        got = vals(out, ln, "centers")
        if got is None:
            return [(None, "no centre reported")]
        if abs(got[0] - want) > 1e-9 * max(1.0, abs(want)):
            sig = None
            if n > 1:
                sig = ("staged centres of a restraint with timeStepFactor advance only at evaluated steps with (step - first) % targetNumSteps == 1" if m["staged"]
                       else "moving centres of a restraint with a timeStepFactor that does not divide targetNumSteps stop short of the target")
            return [(sig, "restraint with timeStepFactor %d, centres moving from %r to %r in %s: at step %d (an evaluated step) the centre is %r, the schedule prescribes %r"
                     % (n, m["c0"], m["c1"], ("%d stages of %d steps" % (m["nstages"], m["nsteps"])) if m["staged"] else ("%d steps" % m["nsteps"]), t, got[0], want))]
    return []


def distribution(cases):
    d = {"kind": {}, "mode": {}, "restarts": 0, "cont": 0, "steps": 0, "periodic": 0}
    for c in cases:
        m = c["meta"]
        if "kind" not in m:
            continue
        d["kind"][m["kind"]] = d["kind"].get(m["kind"], 0) + 1
        if m["kind"] in ("abmd", "histr"):
            d["steps"] += len(m["history"]); continue
        if m["kind"] == "tsf":
            key = "%s/factor %d" % ("staged" if m["staged"] else "continuous", m["n"]); d["mode"][key] = d["mode"].get(key, 0) + 1
            d["steps"] += len(m["marks"]); continue
        d["mode"][m["mode"]] = d["mode"].get(m["mode"], 0) + 1
        d["restarts"] += sum(1 for h in m["history"] if h["boundary"] == "restart")
        d["cont"] += sum(1 for h in m["history"] if h["boundary"] == "cont")
        d["steps"] += len(m["history"]); d["periodic"] += int(any(m["period"]))
    return d


def vals(out, ln, tag):
    v = out.get((ln, tag, 1))
    return None if v is None else [tok_val(t)[1] for t in v]


def oracle(case, out):
    """closed forms: the centre / force constant prescribed for the absolute step, the documented potential at the value,
    work as the sum of force x increment, staged TI as a mean."""
    m = case["meta"]; viol = []
    if m.get("kind") == "tsf":
        return oracle_tsf(m, out)
    if m.get("kind") == "abmd":
        # the ratchet: the reference follows the variable forward while it has not passed the stopping value
        sgn = -1.0 if m["dec"] else 1.0
        ref = None
        for h in m["history"]:
            x = h["x"]
            if ref is None:
                ref = x
            diff = (x - ref) * sgn
            if diff > 0:
                e_exp = 0.0; f_exp = 0.0
                if (ref - m["stop"]) * sgn <= 0:
                    ref = x
            else:
                e_exp = 0.5 * m["k"] * diff * diff; f_exp = -sgn * m["k"] * diff
            e = vals(out, h["line"] + 1, "e"); f = vals(out, h["line"] + 2, "bf")
            if e is None or f is None:
                return ["no ABMD energy / force reported"]
            if abs(e[0] - e_exp) > 1e-10 * max(1.0, abs(e_exp)) or abs(f[0] - f_exp) > 1e-10 * max(1.0, abs(f_exp)):
                return ["ABMD at value %r with reference %r: energy %r force %r, the ratchet's closed form gives %r and %r" % (x, ref, e[0], f[0], e_exp, f_exp)]
        return []
    if m.get("kind") == "histr":
        nb = m["nb"]; sig = m["sigma"]
        for h in m["history"]:
            xs = h["x"]; n_ = len(xs)
            norm = 1.0 / (math.sqrt(2.0 * math.pi) * sig * n_)
            grid = [m["lower"] + (i + 0.5) * m["width"] for i in range(nb)]
            p = [sum(norm * math.exp(-(g - x) ** 2 / (2 * sig * sig)) for x in xs) for g in grid]
            d = [a - b for a, b in zip(p, m["ref"])]
            e_exp = 0.5 * m["k"] * n_ * sum(v * v for v in d)
            f_exp = [-(m["k"] * n_) * sum(d[i] * norm * math.exp(-(grid[i] - x) ** 2 / (2 * sig * sig)) * (grid[i] - x) / (sig * sig) for i in range(nb)) for x in xs]
            e = vals(out, h["line"] + 1, "e"); f = vals(out, h["line"] + 2, "bf")
            if e is None or f is None:
                return ["no histogram-restraint energy / force reported"]
            if abs(e[0] - e_exp) > 1e-10 * max(1.0, abs(e_exp)):
                return ["histogramRestraint at %r: energy %r, half k N times the squared deviation of the smeared histogram from the reference is %r" % (xs, e[0], e_exp)]
            if len(f) != len(f_exp) or any(abs(a - b) > 1e-10 * max(1.0, abs(b)) for a, b in zip(f, f_exp)):
                return ["histogramRestraint at %r: forces %r, minus the gradient of the documented energy is %r" % (xs, f, f_exp)]
        return []
    nd = m["nd"]; kv = m["kv"]; n = m["nsteps"]; first = m["it0"]; mode = m["mode"]
    staged = mode in ("centers_staged", "k_staged", "k_sched", "decouple_staged")
    nst = (len(m["sched"]) - 1) if m["sched"] else m["nstages"]

    def wrapx(i, x):
        if m["period"][i]:
            P, c = m["period"][i], m["wrap"][i]
            return x - math.floor((x - c) / P + 0.5) * P
        return x

    def pdiff(i, a, b):
        d = a - b
        if m["period"][i]:
            P = m["period"][i]; d -= math.floor(d / P + 0.5) * P
        return d

    def lam_stage(s):
        if m["sched"]:
            return m["sched"][s]
        l = s / float(nst)
        return 1.0 - l if mode.startswith("decouple") else l

    def kfun(lam):
        return m["startk"] + (m["targetk"] - m["startk"]) * (lam ** m["lexp"] if lam > 0 or m["lexp"] > 0 else 1.0)

    def k_at(t):
        if mode in ("k", "decouple"):
            l = min(t - first, n) / float(n)
            if mode == "decouple":
                l = 1.0 - l
            return kfun(l)
        if mode in ("k_staged", "k_sched", "decouple_staged"):
            s = min((t - first) // n, nst)
            return kfun(lam_stage(s))
        return m["k0"]

    def c_at(t):
        c0 = kv.get("centers")
        if c0 is None:
            return None
        if mode == "centers":
            l = min(t - first, n) / float(n)
        elif mode == "centers_staged":
            if t <= first:
                return [wrapx(i, c0[i]) if False else c0[i] for i in range(nd)]
            kk = min((t - first - 1) // n + 1, nst + 1)
            l = (kk - 1) / float(nst)
        else:
            return list(c0)
        return [wrapx(i, (1.0 - l) * c0[i] + l * kv["target"][i]) for i in range(nd)]

    def wall_dist(i, x):
        lw = kv.get("lw"); uw = kv.get("uw")
        if m["period"][i]:
            dl = pdiff(i, x, lw[i]); du = pdiff(i, x, uw[i])
            if dl * dl < du * du:
                return dl if dl < 0 else 0.0
            return du if du > 0 else 0.0
        if lw is not None and x - lw[i] < 0:
            return x - lw[i]
        if uw is not None and x - uw[i] > 0:
            return x - uw[i]
        return 0.0

    def energy_force(t, xs):
        kk = k_at(t); cs = c_at(t)
        e = 0.0; f = []
        for i in range(nd):
            x = wrapx(i, xs[i]); w = m["w"][i]
            if m["kind"] == "harmonic":
                d = pdiff(i, x, cs[i]); e += 0.5 * kk / (w * w) * d * d; f.append(-kk / (w * w) * d)
            elif m["kind"] == "linear":
                e += kk / w * (x - cs[i]); f.append(-kk / w)
            else:
                d = wall_dist(i, x); sc = kv["uk"] if d > 0 else kv["lk"]
                e += 0.5 * kk * sc / (w * w) * d * d; f.append(-kk * sc / (w * w) * d)
        return e, f

    def dudk(t, xs):
        cs = c_at(t); s = 0.0
        for i in range(nd):
            x = wrapx(i, xs[i]); w = m["w"][i]
            if m["kind"] == "harmonic":
                d = pdiff(i, x, cs[i]); s += 0.5 / (w * w) * d * d
            elif m["kind"] == "linear":
                s += (x - cs[i]) / w
            else:
                d = wall_dist(i, x); sc = kv["uk"] if d > 0 else kv["lk"]
                s += 0.5 * sc / (w * w) * d * d
        return s

    t = first; started = False
    rel = 0
    work = 0.0
    prev_c = None; prev_k = None
    xs_at = {}
    for h in m["history"]:
        if not started:
            started = True; rel = 0
        elif h["boundary"] == "restart":
            rel = 0
        elif h["boundary"] == "cont":
            pass
        else:
            t += 1; rel += 1
        ln = h["line"]
        xs_at[t] = h["x"]
        e_exp, f_exp = energy_force(t, h["x"])
        e = vals(out, ln + 1, "e")
        if e is None:
            return ["no energy reported"]
        tol = 1e-8 * max(1.0, abs(e_exp))
        if abs(e[0] - e_exp) > tol:
            viol.append("step %d: restraint energy %r, closed form with the scheduled centre/force constant gives %r" % (t, e[0], e_exp))
            return viol
        for i in range(nd):
            fa = vals(out, ln + 2 + i, "fa")
            if fa is None or abs(fa[0] - f_exp[i]) > 1e-8 * max(1.0, abs(f_exp[i])):
                viol.append("step %d: restraint force on variable %d is %r, closed form gives %r" % (t, i, fa, f_exp[i]))
                return viol
        # work
        if m["work"]:
            if mode == "centers" and rel > 0 and t - first <= n and prev_c is not None:
                c_now = [(1.0 - min(t - first, n) / float(n)) * kv["centers"][i] + min(t - first, n) / float(n) * kv["target"][i] for i in range(nd)]
                work += sum(f_exp[i] * pdiff(i, c_now[i], prev_c[i]) for i in range(nd))
            if mode in ("k", "decouple") and rel > 0 and prev_k is not None:
                work += dudk(t, h["x"]) * (k_at(t) - prev_k)
            wv = vals(out, ln + 2 + nd, "work")
            if wv is not None and abs(wv[0] - work) > 1e-7 * max(1.0, abs(work)):
                viol.append("step %d: accumulated work %r, sum of force x increment gives %r" % (t, wv[0], work))
                return viol
        if mode == "centers":
            l = min(t - first, n) / float(n)
            prev_c = [(1.0 - l) * kv["centers"][i] + l * kv["target"][i] for i in range(nd)]
        prev_k = k_at(t)
    # staged TI: whenever a dA/dLambda line appears at step t it closes the window of n steps ending there; its value must be
    # the mean of dU/dlambda over that window's post-equilibration steps, however the run was segmented
    if mode in ("k_staged", "k_sched", "decouple_staged"):
        t = first; started = False; seen = 0; restart_steps = []
        for h in m["history"]:
            if not started:
                started = True
            elif h["boundary"] == "restart":
                seen = 0; restart_steps.append(t)
            elif h["boundary"] == "cont":
                pass
            else:
                t += 1
            ln = h["line"] + 2 + nd
            ti = vals(out, ln, "ti"); nti = vals(out, ln, "nti")
            if not nti or nti[0] <= seen:
                continue
            seen = nti[0]
            lam, val = ti[-2], ti[-1]
            j = (t - first) // n - 1          # the window that closes at t
            if j < 0:
                continue
            sidx = min(j, nst)
            le = m["lexp"]
            fac = le * (lam_stage(sidx) ** (le - 1.0) if le != 1.0 else 1.0) * (m["targetk"] - m["startk"])
            eq = m["equil"]
            win_a = [tt for tt in range(first + j * n, first + (j + 1) * n) if (tt - first) % n >= eq]
            win_b = [tt for tt in range(first + j * n + 1, first + (j + 1) * n + 1)] if eq == 0 else win_a
            ok = False
            for win in (win_a, win_b):
                if win and all(tt in xs_at for tt in win):
                    mean = sum(fac * dudk_stage(m, kv, nd, sidx, xs_at[tt], wrapx, pdiff, wall_dist, c_at, tt) for tt in win) / len(win)
                    if abs(mean - val) <= 2e-5 * max(1.0, abs(mean)):
                        ok = True
            if not ok:
                inside = any(first + j * n < rs <= first + (j + 1) * n for rs in restart_steps)
                sig = "restart inside a stage: the TI accumulator is not part of the state" if inside else None
                viol.append((sig, "staged TI: dA/dLambda printed at step %d for lambda %r is %r, which is not the mean of dU/dlambda over the %d post-equilibration steps of the stage that ends there" % (t, lam, val, n - eq)))
                break
    return viol


def dudk_stage(m, kv, nd, s, xs, wrapx, pdiff, wall_dist, c_at, tt):
    cs = c_at(tt); tot = 0.0
    for i in range(nd):
        x = wrapx(i, xs[i]); w = m["w"][i]
        if m["kind"] == "harmonic":
            d = pdiff(i, x, cs[i]); tot += 0.5 / (w * w) * d * d
        elif m["kind"] == "linear":
            tot += (x - cs[i]) / w
        else:
            d = wall_dist(i, x); sc = kv["uk"] if d > 0 else kv["lk"]
            tot += 0.5 * sc / (w * w) * d * d
    return tot
