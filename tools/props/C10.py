"""C10 — invalid parameter values are reported as errors and are never fatal."""
import os, re, subprocess, json, resource, concurrent.futures
import cvbuild, cvlib
from cvlib import fbits, tok_val, esc
from cvscen import inj_cv, cfg, pos, tf, num

RULE = ("every numeric / structural keyword of every object type (variable grid and analysis parameters, harmonic, harmonicWalls, "
        "linear, abf, metadynamics, histogram, abmd, alb, opes_metad) crossed with the boundary values {0, -1, 1, 2^31, 1e308, nan, inf, "
        "-inf, 1e-300, empty}, plus random pairs; each configuration is added to a module that already has a reference variable "
        "and bias, stepped 8 times, outputs and state written, in its own process under a 2 GB address-space limit and a 20 s "
        "watchdog; non-trivial = the value differs from the default; distinct by (object, keyword, value)")
ASSUMPTIONS = ["memory safety is evidence from these runs (address sanitizer in the thorough tier), not a proof",
               "a 20 s watchdog stands for 'hangs'; a 2 GB address-space limit for 'allocates unboundedly'"]
NATOMS = 4

REF = inj_cv("r", 3, -3.0, 3.0, 0.5) + "harmonic {\n name href\n colvars r\n centers 0.2\n forceConstant 1.0\n}\n"

# object templates: (name, text with %(key)s placeholders filled from defaults)
OBJECTS = {
 "colvar": ("colvar {\n name q\n width %(width)s\n lowerBoundary %(lowerBoundary)s\n upperBoundary %(upperBoundary)s\n"
            " runAve on\n runAveLength %(runAveLength)s\n runAveStride %(runAveStride)s\n corrFunc on\n corrFuncType coordinate\n corrFuncLength %(corrFuncLength)s\n"
            " corrFuncStride %(corrFuncStride)s\n corrFuncOffset %(corrFuncOffset)s\n timeStepFactor %(timeStepFactor)s\n"
            " distanceZ {\n  main { atomNumbers 1 }\n  ref { dummyAtom (0.0, 0.0, 0.0) }\n  axis (0.0, 0.0, 1.0)\n  oneSiteTotalForce on\n  componentExp %(componentExp)s\n  componentCoeff %(componentCoeff)s\n }\n}\n",
            {"width": "0.5", "lowerBoundary": "-3.0", "upperBoundary": "3.0", "runAveLength": "4", "runAveStride": "1", "corrFuncLength": "4",
             "corrFuncStride": "1", "corrFuncOffset": "0", "timeStepFactor": "1", "componentExp": "1", "componentCoeff": "1.0"}),
 "extcolvar": ("colvar {\n name q\n width 0.5\n lowerBoundary -3.0\n upperBoundary 3.0\n extendedLagrangian on\n extendedFluctuation %(extendedFluctuation)s\n"
               " extendedTimeConstant %(extendedTimeConstant)s\n extendedTemp %(extendedTemp)s\n extendedLangevinDamping %(extendedLangevinDamping)s\n"
               " distanceZ {\n  main { atomNumbers 1 }\n  ref { dummyAtom (0.0, 0.0, 0.0) }\n  axis (0.0, 0.0, 1.0)\n }\n}\n",
               {"extendedFluctuation": "0.2", "extendedTimeConstant": "50.0", "extendedTemp": "300.0", "extendedLangevinDamping": "1.0"}),
 "harmonic": ("harmonic {\n name b\n colvars r\n centers %(centers)s\n forceConstant %(forceConstant)s\n targetCenters %(targetCenters)s\n targetNumSteps %(targetNumSteps)s\n"
              " targetNumStages %(targetNumStages)s\n outputFreq %(outputFreq)s\n timeStepFactor %(timeStepFactor)s\n}\n",
              {"centers": "0.5", "forceConstant": "2.0", "targetCenters": "1.0", "targetNumSteps": "4", "targetNumStages": "0", "outputFreq": "0", "timeStepFactor": "1"}),
 "harmonick": ("harmonic {\n name b\n colvars r\n centers 0.5\n forceConstant 2.0\n targetForceConstant %(targetForceConstant)s\n targetNumSteps %(targetNumSteps)s\n"
               " targetNumStages %(targetNumStages)s\n targetEquilSteps %(targetEquilSteps)s\n lambdaExponent %(lambdaExponent)s\n}\n",
               {"targetForceConstant": "4.0", "targetNumSteps": "4", "targetNumStages": "2", "targetEquilSteps": "1", "lambdaExponent": "1.0"}),
 "walls": ("harmonicWalls {\n name b\n colvars r\n lowerWalls %(lowerWalls)s\n upperWalls %(upperWalls)s\n lowerWallConstant %(lowerWallConstant)s\n upperWallConstant %(upperWallConstant)s\n}\n",
           {"lowerWalls": "-1.0", "upperWalls": "1.0", "lowerWallConstant": "2.0", "upperWallConstant": "2.0"}),
 "linear": ("linear {\n name b\n colvars r\n centers %(centers)s\n forceConstant %(forceConstant)s\n}\n", {"centers": "0.5", "forceConstant": "2.0"}),
 "abf": ("abf {\n name b\n colvars r\n fullSamples %(fullSamples)s\n minSamples %(minSamples)s\n maxForce %(maxForce)s\n outputFreq %(outputFreq)s\n historyFreq %(historyFreq)s\n"
         " pABFintegrateFreq %(pABFintegrateFreq)s\n integrateMaxIterations %(integrateMaxIterations)s\n integrateTol %(integrateTol)s\n}\n",
         {"fullSamples": "4", "minSamples": "2", "maxForce": "10.0", "outputFreq": "4", "historyFreq": "0", "pABFintegrateFreq": "0", "integrateMaxIterations": "100", "integrateTol": "1e-6"}),
 "meta": ("metadynamics {\n name b\n colvars r\n hillWeight %(hillWeight)s\n hillWidth %(hillWidth)s\n newHillFrequency %(newHillFrequency)s\n gridsUpdateFrequency %(gridsUpdateFrequency)s\n"
          " biasTemperature %(biasTemperature)s\n wellTempered on\n outputFreq %(outputFreq)s\n}\n",
          {"hillWeight": "0.1", "hillWidth": "2.0", "newHillFrequency": "2", "gridsUpdateFrequency": "2", "biasTemperature": "1000.0", "outputFreq": "4"}),
 "metasig": ("metadynamics {\n name b\n colvars r\n hillWeight 0.1\n gaussianSigmas %(gaussianSigmas)s\n newHillFrequency 2\n useGrids %(useGrids)s\n}\n",
             {"gaussianSigmas": "0.5", "useGrids": "on"}),
 "histogram": ("histogram {\n name b\n colvars r\n outputFreq %(outputFreq)s\n histogramGrid {\n  lowerBoundary %(lowerBoundary)s\n  upperBoundary %(upperBoundary)s\n  width %(width)s\n }\n}\n",
               {"outputFreq": "4", "lowerBoundary": "-2.0", "upperBoundary": "2.0", "width": "0.5"}),
 "abmd": ("abmd {\n name b\n colvars r\n stoppingValue %(stoppingValue)s\n forceConstant %(forceConstant)s\n}\n",
          {"stoppingValue": "1.0", "forceConstant": "2.0"}),
 "alb": ("alb {\n name b\n colvars r\n centers %(centers)s\n updateFrequency %(updateFrequency)s\n forceRange %(forceRange)s\n rateMax %(rateMax)s\n}\n",
         {"centers": "0.5", "updateFrequency": "4", "forceRange": "1.0", "rateMax": "1.0"}),
 "opes": ("opes_metad {\n name b\n colvars r\n newHillFrequency %(newHillFrequency)s\n barrier %(barrier)s\n gaussianSigma %(gaussianSigma)s\n biasfactor %(biasfactor)s\n"
          " epsilon %(epsilon)s\n kernelCutoff %(kernelCutoff)s\n compressionThreshold %(compressionThreshold)s\n printTrajectoryFrequency %(printTrajectoryFrequency)s\n}\n",
          {"newHillFrequency": "2", "barrier": "5.0", "gaussianSigma": "0.3", "biasfactor": "10.0", "epsilon": "1e-4", "kernelCutoff": "4.0", "compressionThreshold": "1.0",
           "printTrajectoryFrequency": "0"}),
 "opesadapt": ("opes_metad {\n name b\n colvars r\n newHillFrequency 2\n barrier 5.0\n adaptiveSigma on\n adaptiveSigmaStride %(adaptiveSigmaStride)s\n gaussianSigmaMin %(gaussianSigmaMin)s\n}\n",
               {"adaptiveSigmaStride": "4", "gaussianSigmaMin": "0.01"}),
 # a variable's grid parameters as seen by the biases that allocate a grid on it (sizes are derived from (upper - lower) / width)
 "abfgrid": ("colvar {\n name q\n width %(width)s\n lowerBoundary %(lowerBoundary)s\n upperBoundary %(upperBoundary)s\n"
             " distanceZ {\n  main { atomNumbers 1 }\n  ref { dummyAtom (0.0, 0.0, 0.0) }\n  axis (0.0, 0.0, 1.0)\n  oneSiteTotalForce on\n }\n}\n"
             "abf {\n name b\n colvars q\n fullSamples 4\n outputFreq 4\n}\n",
             {"width": "0.5", "lowerBoundary": "-3.0", "upperBoundary": "3.0"}),
 "metagrid": ("colvar {\n name q\n width %(width)s\n lowerBoundary %(lowerBoundary)s\n upperBoundary %(upperBoundary)s\n"
              " distanceZ {\n  main { atomNumbers 1 }\n  ref { dummyAtom (0.0, 0.0, 0.0) }\n  axis (0.0, 0.0, 1.0)\n }\n}\n"
              "metadynamics {\n name b\n colvars q\n hillWeight 0.1\n hillWidth 2.0\n newHillFrequency 2\n outputFreq 4\n}\n",
              {"width": "0.5", "lowerBoundary": "-3.0", "upperBoundary": "3.0"}),
 "module": ("colvarsTrajFrequency %(colvarsTrajFrequency)s\ncolvarsRestartFrequency %(colvarsRestartFrequency)s\n", {"colvarsTrajFrequency": "2", "colvarsRestartFrequency": "4"}),
}
VALUES = ["0", "-1", "1", "2147483648", "4294967296", "1e308", "nan", "inf", "-inf", "1e-300", "", "-2147483649", "0.5",
          "2305843009213693952", "9223372036854775808", "18446744073709551615",
          "13"]                                                                          # a width of more than twice the interval: a grid of 0 points      # 2^61 (times 8 wraps to 0), 2^63, 2^64 - 1


def make_case(obj, key, val, seed_steps):
    tmpl, defaults = OBJECTS[obj]
    d = dict(defaults); d[key] = val
    text = tmpl % d
    return text


PADS = {}

# structurally valid option combinations on data files written by an earlier run of the same process (never fatal, whatever they are)
INPUT_CASES = [
 "abf {\n name b\n colvars r\n fullSamples 2\n integrate off\n inputPrefix %(pre)s\n}\n",
 "abf {\n name b\n colvars r\n fullSamples 2\n inputPrefix %(pre)s\n}\n",
 "abf {\n name b\n colvars r\n fullSamples 2\n integrate off\n inputPrefix %(pre)s nosuchfile\n}\n",
 "abf {\n name b\n colvars r\n fullSamples 2\n updateBias off\n inputPrefix %(pre)s\n}\n",
]


# lists whose length must match the number of atoms of a group: too short, too long, repeated or foreign members
_REF4 = "(0.0, 0.0, 0.0) (1.0, 0.0, 0.0) (0.0, 1.0, 0.0) (0.0, 0.0, 1.0)"
STRUCT_CASES = [
 "colvar {\n name q\n rmsd {\n  atoms { atomNumbers 1 2 3 4 }\n  refPositions " + _REF4 + "\n  atomPermutation 2 1\n }\n}\n",
 "colvar {\n name q\n rmsd {\n  atoms { atomNumbers 1 2 3 4 }\n  refPositions " + _REF4 + "\n  atomPermutation 2 2 3 4\n }\n}\n",
 "colvar {\n name q\n rmsd {\n  atoms { atomNumbers 1 2 3 4 }\n  refPositions " + _REF4 + "\n  atomPermutation 2 1 3 9\n }\n}\n",
 "colvar {\n name q\n rmsd {\n  atoms { atomNumbers 1 2 3 4 }\n  refPositions " + _REF4 + "\n  atomPermutation 2 1 4 3 1\n }\n}\n",
 "colvar {\n name q\n rmsd {\n  atoms { atomNumbers 1 2 3 4 }\n  refPositions (0.0, 0.0, 0.0) (1.0, 0.0, 0.0)\n }\n}\n",
 "colvar {\n name q\n eigenvector {\n  atoms { atomNumbers 1 2 3 4 }\n  refPositions " + _REF4 + "\n  vector (1.0, 0.0, 0.0) (0.0, 1.0, 0.0)\n }\n}\n",
 "colvar {\n name q\n eigenvector {\n  atoms { atomNumbers 1 2 3 4 }\n  refPositions " + _REF4 + "\n  vector " + _REF4 + " " + _REF4 + "\n }\n}\n",
 "colvar {\n name q\n eigenvector {\n  atoms { atomNumbers 1 2 3 4 }\n  refPositions (0.0, 0.0, 0.0)\n  vector " + _REF4 + "\n }\n}\n",
 "colvar {\n name q\n orientation {\n  atoms { atomNumbers 1 2 3 4 }\n  refPositions (0.0, 0.0, 0.0) (1.0, 0.0, 0.0)\n }\n}\n",
 "colvar {\n name q\n distanceZ {\n  main { atomNumbers 1 2\n   centerToReference on\n   rotateToReference on\n   refPositions (0.0, 0.0, 0.0)\n  }\n  ref { atomNumbers 3 }\n }\n}\n",
 # pairs of frequencies one of which divides (or is divided by) the other: a zero on either side
 "abf {\n name b\n colvars r\n fullSamples 2\n historyFreq 5\n outputFreq 0\n}\n",
 "abf {\n name b\n colvars r\n fullSamples 2\n historyFreq 0\n outputFreq 5\n}\n",
 "abf {\n name b\n colvars r\n fullSamples 2\n historyFreq 5\n outputFreq 10\n}\n",
 "abf {\n name b\n colvars r\n fullSamples 2\n historyFreq 4\n outputFreq 10\n}\n",
 "metadynamics {\n name b\n colvars r\n hillWeight 0.1\n hillWidth 2.0\n newHillFrequency 3\n gridsUpdateFrequency 0\n outputFreq 0\n}\n",
 "metadynamics {\n name b\n colvars r\n hillWeight 0.1\n hillWidth 2.0\n newHillFrequency 0\n gridsUpdateFrequency 3\n}\n",
 "histogram {\n name b\n colvars r\n outputFreq 0\n}\n",
]


# two walkers of one multiple-walker metadynamics run one after the other in one directory (the second finds the first in the registry and
# reads its files): (newHillFrequency of the first, of the second, replicaUpdateFrequency of the second)
WALK_CASES = [(2, 0, 3), (2, 2, 3), (0, 2, 2), (1, 0, 1), (3, 5, 2)]


def walk_scenario(work, idx, f0, f1, upd):
    d = os.path.join(work, "walk%d" % idx)
    cv = "colvar {\n name r\n width 0.5\n distanceZ {\n  main { atomNumbers 1 }\n  ref { dummyAtom (0.0, 0.0, 0.0) }\n }\n}\n"
    def bias(w, f, u):
        return ("metadynamics {\n name b\n colvars r\n hillWeight 0.2\n hillWidth 2.0\n newHillFrequency %d\n useGrids off\n multipleReplicas on\n"
                " replicaID w%d\n replicasRegistry reg.txt\n replicaUpdateFrequency %d\n}\n" % (f, w, u))
    L = ["m.new 1", "M.noclock", "m.chdir " + d, cfg(cv + bias(0, f0, 3)), "m.opt prefix w0out"]
    for t in range(8):
        L += [pos(0, 0.0, 0.0, 0.1 * t), "m.step"]
    L += ["m.new 1", "M.noclock", cfg(cv + bias(1, f1, upd)), "m.opt prefix w1out"]
    for t in range(8):
        L += [pos(0, 0.0, 0.0, 0.05 * t), "m.step"]
    L += ["m.counts"]
    return L


def scenario(work, idx, text, rng, via_script=False, pre=None):
    prefix = os.path.join(work, "o%d" % idx)
    L = []
    if pre is not None:
        # an ABF run that leaves <pre>.count / <pre>.grad behind
        L += ["m.new %d" % NATOMS, "M.noclock", cfg(REF), cfg("abf {\n name w\n colvars r\n fullSamples 2\n}\n"), "m.opt prefix %s" % pre]
        for s_ in range(5):
            L += [pos(3, 0.0, 0.0, 0.1 * s_), tf(3, 0, 0, 0.5), "m.step"]
        L += ["m.endrun"]
    pad = len(L)
    L += ["m.new %d" % NATOMS, "M.noclock", "m.opt prefix %s" % prefix, cfg(REF)]
    L += [pos(3, 0.0, 0.0, 0.3), pos(0, 0.0, 0.0, 0.1), tf(0, 0, 0, 0.5), "m.step", "m.bias href"]
    # the configuration reaches the module directly (read_config_string) or through the scripting interface's queue (`cv config`)
    L += ["m.scriptq cv config " + esc(text)] if via_script else [cfg(text)]
    x = 0.1
    for s in range(8):
        x += rng.uniform(-0.4, 0.4)
        L += [pos(0, 0.0, 0.0, x), pos(3, 0.0, 0.0, 0.3 + 0.01 * s), tf(0, 0, 0, rng.uniform(-1, 1)), "m.step", "m.bias href"]
    L += ["m.save %s" % prefix, "m.endrun", "m.scriptq cv reset", cfg(REF), pos(3, 0.0, 0.0, 0.3), "m.step", "m.bias href"]
    PADS[idx] = pad           # the evaluation addresses the reference energy and the configuration by line number
    return L


REJECTS = [
 ("cv", "colvar {\n name e\n lowerWall 0.4\n lowerWallConstant 20.0\n extendedLagrangian on\n extendedTemp 300.0\n extendedFluctuation -0.2\n extendedTimeConstant 50.0\n"
        " distanceZ {\n  main { atomNumbers 2 }\n  ref { dummyAtom (0.0, 0.0, 0.0) }\n }\n}\n"),
 ("cv", "colvar {\n name e\n upperWall 0.4\n upperWallConstant 20.0\n width -1.0\n distanceZ {\n  main { atomNumbers 2 }\n  ref { dummyAtom (0.0, 0.0, 0.0) }\n }\n}\n"),
 ("cv", "colvar {\n name e\n runAve on\n runAveLength 4\n runAveStride 0\n distanceZ {\n  main { atomNumbers 2 }\n  ref { dummyAtom (0.0, 0.0, 0.0) }\n }\n}\n"),
 ("cv", "colvar {\n name e\n lowerWall 0.1\n lowerWallConstant 2.0\n distanceZ {\n  main { atomNumbers 2 }\n  ref { dummyAtom (0.0, 0.0, 0.0) }\n  componentExp 0\n }\n nosuchkeyword 3\n}\n"),
 ("cv", "colvar {\n name e\n distance {\n  group1 { atomNumbers 2 }\n }\n}\n"),
 ("bias", "harmonic {\n name b\n colvars r\n centers 0.5\n forceConstant 2.0\n targetCenters 1.0\n targetNumSteps 0\n}\n"),
 ("bias", "abf {\n name b\n colvars r\n fullSamples 4\n minSamples 6\n}\n"),
 ("bias", "abf {\n name b\n colvars r\n maxForce 1.0 2.0\n}\n"),
 ("bias", "metadynamics {\n name b\n colvars r\n hillWeight 0.1\n hillWidth -1.0\n}\n"),
 ("bias", "harmonic {\n name b\n colvars nosuch\n centers 0.5\n forceConstant 2.0\n}\n"),
 ("bias", "harmonicWalls {\n name b\n colvars r\n lowerWalls 1.0\n upperWalls -1.0\n lowerWallConstant 2.0\n upperWallConstant 2.0\n}\n"),
 ("bias", "histogram {\n name b\n colvars r\n histogramGrid {\n  lowerBoundary 2.0\n  upperBoundary -2.0\n  width 0.5\n }\n}\n"),
 # a bias that needs total forces from a variable that cannot give them, listed before one that already gives them to another bias
 ("bias", "abf {\n name b\n colvars cn r\n fullSamples 2\n}\n"),
 ("bias", "harmonic {\n name b\n colvars cn r\n centers 0.5 0.5\n forceConstant 2.0\n writeTISamples on\n}\n"),
]
TFPART = ("colvar {\n name cn\n coordNum {\n  group1 { atomNumbers 1 }\n  group2 { atomNumbers 2 3 }\n  cutoff 2.0\n }\n}\n"
          "abf {\n name ab0\n colvars r\n fullSamples 1\n integrate off\n}\n")
VALID2 = ("colvar {\n name s\n width 0.5\n distanceZ {\n  main { atomNumbers 3 }\n  ref { dummyAtom (0.0, 0.0, 0.0) }\n }\n}\n"
          "harmonic {\n name hs\n colvars s\n centers -0.3\n forceConstant 3.0\n}\n")


VALID3 = "colvar {\n name e\n width 0.5\n distanceZ {\n  main { atomNumbers 2 }\n  ref { dummyAtom (0.0, 0.0, 0.0) }\n }\n}\n"


def timeline(rng_seed, rejects, work, tag):
    """valid configuration, steps, second valid configuration, steps; `rejects` = configurations tried in between"""
    rng = cvlib.Rng(rng_seed)
    L = ["m.new %d" % NATOMS, "M.noclock", "m.opt prefix %s" % os.path.join(work, tag)]
    probes = []
    def steps(n):
        for s in range(n):
            for a in range(NATOMS):
                L.append(pos(a, 0.0, 0.0, rng.uniform(-1, 1)))
                L.append(tf(a, 0.0, 0.0, rng.uniform(-2, 2)))
            L.append("m.step"); probes.append(len(L))
            L.append("m.forces"); probes.append(len(L))
            L.append("m.counts"); probes.append(len(L))
    rj = list(rejects)
    def reject():
        if rj:
            k, text = rj.pop(0)
            L.append("v.cfg rejected %s %s" % (k, esc(text)))
            return len(L)
        return None
    vl = []
    # (the first valid configuration also has a bias that reads total forces and a variable that cannot provide them: a rejected bias naming
    # both must not take anything away from the valid one)
    L.append(cfg(REF + TFPART)); probes.append(len(L)); steps(2)
    vl.append(reject()); steps(2)
    vl.append(reject())
    L.append(cfg(VALID2)); probes.append(len(L)); steps(3)
    vl.append(reject()); steps(1)
    # a later, valid object that reuses the name of the rejected ones
    L.append(cfg(VALID3)); probes.append(len(L)); steps(2)
    return L, probes, [v for v in vl if v]


def gen(rng, tier):
    work = os.path.join(cvbuild.CACHE, "c10-gen")
    os.makedirs(work, exist_ok=True)
    cases = []
    n = 30 if tier == "quick" else 300
    # (A) validation rules: the model's verdict and object bookkeeping against the library's
    for k in range(n):
        kind = ["analysis", "abf", "moving", "meta", "abfhist", "metarep"][k % 6]
        L = ["m.new %d" % NATOMS, "M.noclock", cfg(REF)]
        meta = {"kind": kind}
        if kind == "analysis":
            ra, co = rng.randint(0, 1), rng.randint(0, 1)
            ral, ras, al, as_ = rng.randint(0, 5), rng.randint(0, 3), rng.randint(0, 4), rng.randint(0, 3)
            t = "colvar {\n name q\n width 0.5\n"
            if ra:
                t += " runAve on\n runAveLength %d\n runAveStride %d\n" % (ral, ras)
            if co:
                t += " corrFunc on\n corrFuncType coordinate\n corrFuncLength %d\n corrFuncStride %d\n" % (al, as_)
            t += " distanceZ {\n  main { atomNumbers 1 }\n  ref { dummyAtom (0.0, 0.0, 0.0) }\n }\n}\n"
            L.append("v.cfg analysis %d %d %d %d %d %d %s" % (ra, ral, ras, co, al, as_, esc(t)))
            meta.update(ra=ra, ral=ral, ras=ras, co=co, al=al, as_=as_)
        elif kind == "abf":
            full, mn, mf = rng.randint(0, 6), rng.randint(0, 6), rng.choice([-1, -1, 1, 2, 3])
            t = "abf {\n name vb\n colvars r\n fullSamples %d\n minSamples %d\n" % (full, mn)
            if mf > 0:
                t += " maxForce " + " ".join(["5.0"] * mf) + "\n"
            t += "}\n"
            L.append("v.cfg abf %d %d 1 %d %s" % (full, mn, mf, esc(t)))
            meta.update(full=full, mn=mn, mf=mf)
        elif kind == "metarep":
            # a walker of a multiple-walker metadynamics: the exchange frequency must be positive, the hill frequency may be zero
            u, nhf = rng.choice([0, 0, 1, 2, 3]), rng.choice([0, 1, 2])
            L.append("m.chdir %s" % os.path.join(work, "metarep%d" % k))
            L.append("m.opt prefix mr%d" % k)
            t = ("metadynamics {\n name vb\n colvars r\n hillWeight 0.1\n hillWidth 2.0\n useGrids off\n newHillFrequency %d\n multipleReplicas on\n replicaID w0\n"
                 " replicasRegistry reg.txt\n replicaUpdateFrequency %d\n}\n" % (nhf, u))
            L.append("v.cfg metarep %d %s" % (u, esc(t)))
            meta.update(u=u, nhf=nhf)
        elif kind == "abfhist":
            # historyFreq against outputFreq, a zero on either side included
            hf, of_ = rng.choice([0, 2, 3, 4, 5, 6, 9]), rng.choice([0, 0, 1, 2, 3, 4])
            t = "abf {\n name vb\n colvars r\n fullSamples 2\n outputFreq %d\n historyFreq %d\n}\n" % (of_, hf)
            L.append("m.opt prefix %s" % os.path.join(work, "abfhist%d" % k))      # the history files go to the scratch directory
            L.append("v.cfg abfhist %d %d %s" % (hf, of_, esc(t)))
            meta.update(hf=hf, of_=of_)
        elif kind == "moving":
            ch, ns = rng.randint(0, 1), rng.randint(0, 4)
            t = "harmonic {\n name vb\n colvars r\n centers 0.5\n forceConstant 2.0\n"
            if k % 12 == 2:
                ch = 1                                # directed: every other moving case leaves the keyword out
            omit = ch and (k % 12 == 2 or rng.rand() < 0.3)
            if omit:
                ns = 0                                # the keyword left out: the default (0 steps) must be rejected like an explicit 0
                t += " targetCenters 1.0\n" + (" targetNumStages 2\n" if k % 12 == 2 else "")     # (staged: the remainder by the number of steps is an integer one)
            elif ch:
                t += " targetCenters 1.0\n targetNumSteps %d\n" % ns     # the keyword is only known to a moving restraint
            t += "}\n"
            L.append("v.cfg moving %d %d %s" % (ch, ns, esc(t)))
            meta.update(ch=ch, ns=ns)
        else:
            nhf, guf = rng.randint(0, 3), rng.randint(0, 3)
            grids = rng.rand() < 0.5
            if grids:
                t = "metadynamics {\n name vb\n colvars r\n hillWeight 0.1\n hillWidth 2.0\n newHillFrequency %d\n gridsUpdateFrequency %d\n}\n" % (nhf, guf)
            else:
                t = "metadynamics {\n name vb\n colvars r\n hillWeight 0.1\n hillWidth 2.0\n useGrids off\n newHillFrequency %d\n}\n" % nhf
                guf = 0
            L.append("v.cfg meta %d %d %s" % (nhf, guf, esc(t)))
            meta.update(nhf=nhf, guf=guf)
        nst = rng.randint(3, 9)
        for s in range(nst + 1):
            L += [pos(3, 0.0, 0.0, rng.uniform(-1, 1)), pos(0, 0.0, 0.0, rng.uniform(-1, 1)), tf(3, 0, 0, rng.uniform(-1, 1)), "m.step"]
        if kind == "meta" and not grids:
            L.append("v.hills %d %d %d" % (nhf, guf, nst))
        L.append("m.counts")
        cases.append({"lines": L, "meta": meta, "nontrivial": True})
    # (B) rollback: a module that also received rejected configurations is indistinguishable from one that did not
    m = 12 if tier == "quick" else 120
    for k in range(m):
        sd = rng.randint(1, 1 << 30)
        nrej = rng.randint(1, 3)
        rj = [REJECTS[(k + 5 * j) % len(REJECTS)] for j in range(nrej)]
        if k % 4 == 3:
            rj = [rng.choice(REJECTS) for j in range(3)]
        clean, pc, _ = timeline(sd, [], work, "clean%d" % k)
        dirty, pd, vl = timeline(sd, rj, work, "dirty%d" % k)
        off = len(clean)
        cases.append({"lines": clean + dirty, "meta": {"kind": "rollback", "clean": pc, "dirty": [x + off for x in pd], "vlines": [x + off for x in vl],
                                                       "rejects": [r[1].split("\n")[0] + " … " for r in rj]}, "nontrivial": True})
    return cases


def distribution(cases):
    d = {}
    for c in cases:
        d[c["meta"]["kind"]] = d.get(c["meta"]["kind"], 0) + 1
    return d


def oracle(case, out):
    m = case["meta"]
    viol = []
    if m["kind"] != "rollback":
        # nothing may be half-added: counts are those of the reference objects plus the accepted one
        v = None
        for (ln, tag, occ), val in out.items():
            if tag == "v":
                v = [tok_val(t)[1] for t in val]
        if v is None:
            return ["the configuration produced no verdict"]
        if v[0] == 0 and (v[1] != 0 or v[2] != 0):
            viol.append("a rejected configuration changed the number of objects by (%d variables, %d biases)" % (v[1], v[2]))
        return viol
    for vl in m["vlines"]:
        v = out.get((vl, "v", 1))
        if v is None:
            return ["no verdict for an interleaved configuration"]
        v = [tok_val(t)[1] for t in v]
        if v[0] != 0:
            return []      # this one was accepted: the two timelines legitimately differ (the correspondence reports the verdict)
        if v[1] != 0 or v[2] != 0:
            return ["a rejected configuration changed the number of objects by (%d variables, %d biases)" % (v[1], v[2])]
    for a, b in zip(m["clean"], m["dirty"]):
        ka = sorted((tag, occ) for (ln, tag, occ) in out if ln == a)
        kb = sorted((tag, occ) for (ln, tag, occ) in out if ln == b)
        if ka != kb:
            return ["after a rejected configuration the module reports different items (%r vs %r) at op line %d" % (ka, kb, b)]
        for (tag, occ) in ka:
            if tag == "natoms":
                continue
            va, vb = out[(a, tag, occ)], out[(b, tag, occ)]
            if va != vb:
                return ["after rejected configurations (%s) the module differs from one that never saw them: %s at op line %d is %s, expected %s"
                        % ("; ".join(m["rejects"]), tag, b, " ".join(vb)[:80], " ".join(va)[:80])]
    return viol


ASAN = False


def limits():
    if not ASAN:
        resource.setrlimit(resource.RLIMIT_AS, (2 << 30, 2 << 30))
    resource.setrlimit(resource.RLIMIT_CORE, (0, 0))


def run_one(exe, opf):
    try:
        p = subprocess.run([exe, opf], stdout=subprocess.PIPE, stderr=subprocess.PIPE, text=True, timeout=20, preexec_fn=limits,
                           env=dict(os.environ, OMP_NUM_THREADS="1", ASAN_OPTIONS="detect_leaks=0:allocator_may_return_null=0:max_allocation_size_mb=2048",
                                    UBSAN_OPTIONS="halt_on_error=1"), errors="replace")
        return p.returncode, p.stdout, p.stderr[-400:]
    except subprocess.TimeoutExpired:
        return "timeout", "", ""


def extra(rep, tier, rng):
    # thorough: address + undefined-behaviour sanitizers (no address-space limit: ASan reserves terabytes of shadow memory)
    variant = "asan" if tier == "thorough" else "rel"
    exe = cvbuild.build_harness(variant)
    global ASAN
    ASAN = variant == "asan"
    work = os.path.join(cvbuild.CACHE, "c10-%d" % os.getpid())
    os.makedirs(work, exist_ok=True)
    jobs = []
    for obj, (tmpl, defaults) in sorted(OBJECTS.items()):
        for key in sorted(defaults):
            for val in VALUES:
                jobs.append((obj, key, val))
    if tier == "quick":
        # every (object, keyword) with the three most dangerous values, plus a seeded sample of the rest
        core = [j for j in jobs if j[2] in ("0", "-1", "2147483648", "nan", "1e308", "2305843009213693952", "13")]
        rest = [j for j in jobs if j not in core]
        rng.shuffle(rest)
        jobs = core + rest[:150]
    # every fourth configuration of the sweep, and every configuration of the rejected list, arrives through `cv config`
    nsweep = len(jobs)
    jobs += [("reject%d" % i, "(whole configuration)", r[1].split("\n")[0]) for i, r in enumerate(REJECTS)]
    nrejects = len(jobs)
    jobs += [("input%d" % i, "(whole configuration)", " ".join(t.split()[5:])[:60]) for i, t in enumerate(INPUT_CASES)]
    ninputs = len(jobs)
    jobs += [("struct%d" % i, "(whole configuration)", " ".join(t.split()[4:6]) + " … " + " ".join(t.split()[-8:-3])[:50]) for i, t in enumerate(STRUCT_CASES)]
    nstructs = len(jobs)
    jobs += [("walk%d" % i, "(two walkers in turn)", "newHillFrequency %d then %d, replicaUpdateFrequency %d" % w) for i, w in enumerate(WALK_CASES)]
    files = []
    for i, (obj, key, val) in enumerate(jobs):
        if i >= nstructs:
            L = walk_scenario(work, i, *WALK_CASES[i - nstructs])
            f = os.path.join(work, "c%d.txt" % i)
            open(f, "w").write("\n".join(L) + "\n")
            files.append(f)
            continue
        if i >= ninputs:
            L = scenario(work, i, STRUCT_CASES[i - ninputs], rng.fork(), via_script=(i % 2 == 1))
            f = os.path.join(work, "c%d.txt" % i)
            open(f, "w").write("\n".join(L) + "\n")
            files.append(f)
            continue
        if i >= nrejects:
            pre = os.path.join(work, "in%d" % i)
            L = scenario(work, i, INPUT_CASES[i - nrejects] % {"pre": pre}, rng.fork(), pre=pre)
            f = os.path.join(work, "c%d.txt" % i)
            open(f, "w").write("\n".join(L) + "\n")
            files.append(f)
            continue
        text = make_case(obj, key, val, None) if i < nsweep else REJECTS[i - nsweep][1]
        L = scenario(work, i, text, rng.fork(), via_script=(i % 4 == 3 or i >= nsweep))
        f = os.path.join(work, "c%d.txt" % i)
        open(f, "w").write("\n".join(L) + "\n")
        files.append(f)
    results = []
    with concurrent.futures.ThreadPoolExecutor(max_workers=12) as ex:
        results = list(ex.map(lambda f: run_one(exe, f), files))
    ncrash = 0; nrej = 0; nacc = 0
    by_obj = {}
    samples = []
    seen_sig = set()
    for (obj, key, val), f, (rc, out, err) in zip(jobs, files, results):
        po, _ = cvlib.parse_out(out) if out else ({}, [])
        L = open(f).read().split("\n")
        cfg_line = 10 + PADS.get(jobs.index((obj, key, val)), 0)  # index (1-based) of the mutated configuration in `scenario`
        r = po.get((cfg_line, "rc", 1))
        if r == ["i1"]:
            nrej += 1
        elif r == ["i0"]:
            nacc += 1
        bo = by_obj.setdefault(obj, {"accepted": 0, "rejected": 0})
        bo["accepted" if r == ["i0"] else "rejected"] += 1
        if len(samples) < 4:
            samples.append({"object": obj, "keyword": key, "value": val, "accepted": r == ["i0"], "exit": rc})
        if rc != 0:
            ncrash += 1
            what = "hang (20 s watchdog)" if rc == "timeout" else ("terminated by signal %d" % -rc if isinstance(rc, int) and rc < 0 else "exit status %s" % rc)
            sig = "%s.%s=%s" % (obj, key, val)
            if obj == "colvar" and key in ("corrFuncLength", "corrFuncStride", "corrFuncOffset", "runAveLength", "runAveStride") and (
                    val.startswith("-") or val in ("2147483648", "4294967296", "1e308", "inf", "2305843009213693952", "9223372036854775808", "18446744073709551615")):
                sig = "analysis window sizes (size_t) accept huge or negative values"
            rep.violation("%s: %s %s %s -> the host process: %s %s" % (what, obj, key, val or "(empty)", what, err.strip().splitlines()[-1:] if err else ""),
                          open(f).read(), "fatal_" + re.sub(r"[^A-Za-z0-9]+", "_", "%s_%s_%s" % (obj, key, (val or "empty").replace("-", "m").replace(".", "p")))[:80], found_input=True, signature=sig)
            continue
        if obj.startswith("walk"):
            continue          # (two modules in turn, no reference bias: reaching the end of the file without a signal is the check)
        # the module stays usable and the reference bias is unaffected: energies of href identical to a run without the object
        e_ref_before = po.get((9 + PADS.get(jobs.index((obj, key, val)), 0), "e", 1))
        last = max((k[0] for k in po if k[1] == "e"), default=None)
        if e_ref_before is None or last is None:
            rep.violation("module unusable after %s %s=%s" % (obj, key, val), open(f).read(), "unusable_%s_%s" % (obj, key), found_input=True,
                          signature="%s.%s=%s:unusable" % (obj, key, val))
    rep.extra["configurations_run"] = len(jobs)
    rep.extra["rejected"] = nrej
    rep.extra["accepted"] = nacc
    rep.extra["fatal"] = ncrash
    rep.extra["by_object"] = by_obj
    rep.extra["process_samples"] = samples
    rep.cov["evaluations"] += len(jobs)
    rep.cov["distinct_nontrivial"] += len(jobs)
    import shutil
    shutil.rmtree(work, ignore_errors=True)
