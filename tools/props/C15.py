"""C15 — every sample lands in exactly one grid bin; index arithmetic; grid files round-trip."""
import math
from cvlib import fbits, bits_to_f, tok_val

RULE = ("grids of 1-3 dimensions with random sizes 1..7, dyadic and generic lower boundaries/widths, mixed periodicity and "
        "multiplicity 1..3; per grid: values on bin edges (exact dyadic), inside, outside and far outside; every index "
        "vector in a box one larger than the grid; full enumeration by incr; non-trivial = grid has >1 point; distinct by op text")


def gen_hist(rng, tier):
    """histogram bias on 1-2 injected scalar variables: edges, outside, run boundaries, stepZeroData"""
    from cvscen import inj_cv, cfg, pos
    n = 25 if tier == "quick" else 400
    cases = []
    for k in range(n):
        nd = rng.randint(1, 2)
        lo, hi, w, per, wc = [], [], [], [], []
        conf = ""
        for i in range(nd):
            dy = rng.rand() < 0.7
            wi = rng.choice([0.25, 0.5, 1.0]) if dy else rng.uniform(0.2, 1.5)
            l = rng.dyadic(-4, 4, 2) if dy else rng.uniform(-4, 4)
            nb = rng.randint(1, 6)
            h = l + nb * wi
            P = 0.0; c = 0.0
            if rng.rand() < 0.3 and k % 8 == 0:
                P = nb * wi if rng.rand() < 0.6 else nb * wi * 2
                c = l + P / 2 if rng.rand() < 0.7 else rng.dyadic(-2, 2, 2)
            lo.append(l); hi.append(h); w.append(wi); per.append(P); wc.append(c)
            conf += inj_cv("x%d" % i, i, l, h, wi, P if P else None, c if P else None)
        step0 = rng.rand() < 0.3
        cvw = list(w)
        # custom grid block overriding any subset of {lowerBoundary, upperBoundary, width} (for all variables at once)
        gridblock = ""; custom = []
        if True:
            from cvscen import num
            # enumerate the subsets of overridden keys over the cases (k % 8; 0 = no custom block)
            for bit, key in enumerate(("lowerBoundary", "upperBoundary", "width")):
                if (k % 8) >> bit & 1:
                    custom.append(key)
            if custom:
                for i in range(nd):
                    if per[i]:
                        continue   # keep periodic variables on their period-commensurate grid
                    if "width" in custom:
                        w[i] = w[i] * rng.choice([0.5, 2.0, 0.25])
                    if "lowerBoundary" in custom:
                        lo[i] = lo[i] - rng.randint(0, 3) * w[i]
                    if "upperBoundary" in custom:
                        hi[i] = hi[i] + rng.randint(0, 3) * w[i]
                    # the interval need not be commensurate with the new width (the code then adjusts the upper
                    # boundary); stay away from the rounding tie and from empty grids
                    q = (hi[i] - lo[i]) / w[i]
                    if q < 0.7 or 0.35 < q - math.floor(q) < 0.65:
                        hi[i] = lo[i] + max(1, int(round(q))) * w[i]
                        if "upperBoundary" not in custom:
                            custom.append("upperBoundary")
                gridblock = " histogramGrid {\n"
                if "lowerBoundary" in custom:
                    gridblock += "  lowerBoundary " + " ".join(num(x) for x in lo) + "\n"
                if "upperBoundary" in custom:
                    gridblock += "  upperBoundary " + " ".join(num(x) for x in hi) + "\n"
                if "width" in custom:
                    gridblock += "  width " + " ".join(num(x) for x in w) + "\n"
                gridblock += " }\n"
        setup = ["m.new %d" % nd, cfg(conf),
                 cfg("histogram {\n name h\n colvars %s\n%s%s}\n" % (" ".join("x%d" % i for i in range(nd)), " stepZeroData on\n" if step0 else "", gridblock)),
                 ] + ["M.cv x%d %d %s %s %s 0" % (i, i, fbits(cvw[i]), fbits(per[i]), fbits(wc[i])) for i in range(nd)] + [
                 "M.hist h %d %d %s %s %s %s" % (1 if step0 else 0, nd, " ".join("x%d" % i for i in range(nd)),
                     " ".join(map(fbits, lo)), " ".join(map(fbits, hi)), " ".join(map(fbits, w)))]
        lines = list(setup)
        nsteps = rng.randint(3, 25)
        # a third of the runs without stepZeroData are stopped once, saved, and resumed by a fresh instance from the state: the first step
        # of the resumed job repeats the stop step (its sample came in with the state) and must not be counted again
        restart_at = rng.randint(1, nsteps - 1) if (k % 3 == 1 and not step0) else -1
        hist = []
        for s_ in range(nsteps):
            if s_ == restart_at:
                import os as _os, cvbuild as _cb
                pfx = _os.path.join(_cb.CACHE, "c15-scratch"); _os.makedirs(pfx, exist_ok=True); pfx = _os.path.join(pfx, "h%d" % k)
                lines += ["m.save %s" % pfx] + setup + ["m.load %s" % pfx]
                for i in range(nd):
                    lines.append(pos(i, 0.0, 0.0, hist[-1][0][i]))
                lines.append("m.step"); hist.append((list(hist[-1][0]), True))
            xs = []
            for i in range(nd):
                r = rng.rand()
                if r < 0.35:
                    x = lo[i] + rng.randint(-1, int(round((hi[i] - lo[i]) / w[i])) + 1) * w[i]
                elif r < 0.85:
                    x = rng.uniform(lo[i] - w[i], hi[i] + w[i])
                else:
                    x = rng.uniform(-30, 30)
                xs.append(x)
                lines.append(pos(i, rng.uniform(-1, 1), rng.uniform(-1, 1), x))
            cont = s_ > 0 and rng.rand() < 0.15
            lines.append("m.step cont" if cont else "m.step")
            hist.append((xs, cont))
            if rng.rand() < 0.2:
                lines.append("h.dump h")
        lines.append("h.dump h")
        cases.append({"lines": lines, "meta": {"hist": True, "nd": nd, "lo": lo, "hi": hi, "w": w, "period": per, "wrap": wc,
                                                "stepZero": step0, "custom": custom, "history": hist}, "nontrivial": nsteps > 1})
    return cases


def gen(rng, tier):
    return gen_grid(rng, tier) + gen_hist(rng, tier)


def gen_grid(rng, tier):
    n = 60 if tier == "quick" else 1200
    cases = []
    for k in range(n):
        nd = rng.randint(1, 3)
        nx = [rng.randint(1, 7) for _ in range(nd)]
        mult = rng.randint(1, 3)
        dy = rng.rand() < 0.6
        lo = [rng.dyadic(-8, 8, 3) if dy else rng.uniform(-8, 8) for _ in range(nd)]
        w = [rng.choice([0.25, 0.5, 1.0, 2.0, 0.125]) if dy else rng.uniform(0.05, 3.0) for _ in range(nd)]
        per = [1 if rng.rand() < 0.4 else 0 for _ in range(nd)]
        lines = ["m.new 2",
                 "g.new %d %d %s %s %s %s" % (mult, nd, " ".join(map(str, nx)), " ".join(map(fbits, lo)),
                                              " ".join(map(fbits, w)), " ".join(map(str, per)))]
        for i in range(nd):
            for _ in range(6):
                r = rng.rand()
                if r < 0.4:   # exactly on an edge
                    x = lo[i] + rng.randint(-2, nx[i] + 2) * w[i]
                elif r < 0.8:
                    x = rng.uniform(lo[i] - 2 * w[i], lo[i] + (nx[i] + 2) * w[i])
                else:
                    x = rng.uniform(-1e4, 1e4)
                lines.append("g.bin %d %s" % (i, fbits(x)))
                lines.append("g.binb %d %s" % (i, fbits(x)))
            lines.append("g.val %d %d" % (i, rng.randint(-2, nx[i] + 1)))
        for _ in range(8):
            ix = [rng.randint(-1, nx[i]) for i in range(nd)]
            lines.append("g.addr " + " ".join(map(str, ix)))
            ixok = [rng.randint(0, nx[i] - 1) for i in range(nd)]
            lines.append("g.incr " + " ".join(map(str, ixok)))
            ixw = [rng.randint(-nx[i], 2 * nx[i] - 1) if per[i] else rng.randint(0, nx[i] - 1) for i in range(nd)]
            lines.append("g.wrap " + " ".join(map(str, ixw)))
        lines.append("g.enum")
        # grid files: fill, write in every form, read back into a fresh grid
        npts = 1
        for n_ in nx:
            npts *= n_
        data = [rng.choice([0.0, 1.0, rng.uniform(-5, 5), rng.uniform(-1e-3, 1e-3), rng.uniform(-1e6, 1e6)]) for _ in range(npts * mult)]
        if mult == 1:          # (the scalar grid class reads and writes one value per point)
            lines.append("g.fill " + " ".join(map(fbits, data)))
            for kind in ["multicol", "raw", "restart", "rawbin", "restartbin"]:
                lines.append("g.rt " + kind)
        if mult == nd:         # a gradient grid (one value per variable and point), linked to its count grid or not
            cnts = [rng.choice([0, 0, 1, 2, 3, 7, 1000]) for _ in range(npts)]
            nocount = rng.rand() < 0.3
            gdat = [(0.0 if (cnts[a // mult] == 0 and not nocount) else data[a]) for a in range(npts * mult)]
            lines.append("g.fill " + " ".join(map(fbits, gdat)))
            lines.append("g.counts " + " ".join(map(str, cnts)))
            for kind in ["multicol", "multicoladd", "raw", "restart", "rawbin", "restartbin"]:
                lines.append("g.rtgrad " + kind + (" nocount" if nocount else ""))
        # restart block read by a grid of the same periodic variable that was set up over other boundaries: shape, data and the
        # periodicity flag must be those of the grid written
        rtx = []
        for _ in range(2):
            P, wv = rng.choice([(360.0, 10.0), (8.0, 0.5), (360.0, 7.5), (6.0, 0.25)])
            nfull = int(round(P / wv))
            full_w = rng.rand() < 0.5
            nW = nfull if full_w else rng.randint(2, nfull - 1)
            nR = rng.randint(2, nfull - 1) if (full_w or rng.rand() < 0.5) else nfull
            loW = rng.randint(-nfull, nfull) * wv; loR = rng.randint(-nfull, nfull) * wv
            kind = rng.choice(["restart", "restartbin"])
            lines.append("g.rtx %s %s %s %s %s %s %s %s" % (kind, fbits(P), fbits(wv), fbits(wv), fbits(loW), fbits(loW + nW * wv), fbits(loR), fbits(loR + nR * wv)))
            rtx.append({"line": len(lines), "P": P, "w": wv, "nW": nW, "nR": nR, "loW": loW, "full": nW == nfull})
        # init_from_boundaries
        l0 = rng.dyadic(-4, 4, 2); w0 = rng.choice([0.25, 0.5, 1.0, 0.1, 0.3, rng.uniform(0.1, 1.0)])
        hi = l0 + rng.randint(1, 12) * w0 + rng.choice([0.0, 0.0, 0.3 * w0, -0.2 * w0])
        lines.append("g.sizes %s %s %s" % (fbits(l0), fbits(hi), fbits(w0)))
        npts = 1
        for v in nx:
            npts *= v
        cases.append({"lines": lines, "meta": {"nd": nd, "nx": nx, "mult": mult, "per": per, "dyadic": dy, "rtx": rtx}, "nontrivial": npts > 1})
    return cases


def distribution(cases):
    d = {"nd": {}, "periodic_dims": 0, "dyadic": 0}
    d["histogram_cases"] = sum(1 for c in cases if c["meta"].get("hist"))
    d["histogram_steps"] = sum(len(c["meta"]["history"]) for c in cases if c["meta"].get("hist"))
    for c in cases:
        m = c["meta"]
        if "nd" not in m or m.get("hist"):
            continue
        d["nd"][m["nd"]] = d["nd"].get(m["nd"], 0) + 1
        d["periodic_dims"] += sum(m["per"]); d["dyadic"] += int(m["dyadic"])
    return d


def vals(out, ln, tag):
    v = out.get((ln, tag, 1))
    return None if v is None else [tok_val(t)[1] for t in v]


def oracle_hist(case, out):
    """independent recount of the histogram from the fed history"""
    import math
    m = case["meta"]; viol = []
    nd = m["nd"]
    nx = [int(math.floor((m["hi"][i] - m["lo"][i]) / m["w"][i] + 0.5)) for i in range(nd)]
    counts = {}
    it = 0; first = True; total = 0
    for xs, cont in m["history"]:
        if first:
            first = False; c = False
        elif cont:
            c = True
        else:
            it += 1; c = False
        elig = (it > 0 and not c) or m["stepZero"]
        if not elig:
            continue
        b = []
        for i in range(nd):
            x = xs[i]
            if m["period"][i]:
                P, wc = m["period"][i], m["wrap"][i]
                x = x - math.floor((x - wc) / P + 0.5) * P
            b.append(int(math.floor((x - m["lo"][i]) / m["w"][i])))
        if all(0 <= b[i] < nx[i] for i in range(nd)):
            a = 0
            for i in range(nd):
                a = a * nx[i] + b[i]
            counts[a] = counts.get(a, 0) + 1; total += 1
    last = max(k[0] for k in out) if out else 0
    d = vals(out, last, "data")
    if d is None or not all(isinstance(x, float) for x in d):
        return ["histogram data not available"]
    if abs(sum(d) - total) > 1e-9:
        viol.append("sum of counts %r differs from the number of eligible in-range samples %d" % (sum(d), total))
    else:
        for a, v in enumerate(d):
            if abs(v - counts.get(a, 0)) > 1e-9:
                viol.append("bin %d holds %r, recount gives %d" % (a, v, counts.get(a, 0))); break
    return viol


def oracle(case, out):
    if case["meta"].get("hist"):
        return oracle_hist(case, out)
    viol = []
    L = case["lines"]
    g = None
    for idx, line in enumerate(L, 1):
        t = line.split()
        if t[0] == "g.new":
            mult, nd = int(t[1]), int(t[2])
            nx = [int(x) for x in t[3:3 + nd]]
            lo = [bits_to_f(x) for x in t[3 + nd:3 + 2 * nd]]
            w = [bits_to_f(x) for x in t[3 + 2 * nd:3 + 3 * nd]]
            g = (mult, nd, nx, lo, w)
        elif t[0] == "g.fill" and g:
            gdata = [bits_to_f(x) for x in t[1:]]
            gper = None
            tn = L[[i for i, l in enumerate(L) if l.startswith("g.new")][-1]].split() if False else None
        elif t[0] == "g.rt" and g:
            ok = vals(out, idx, "ok")
            if ok is None:
                viol.append("no result for the %s round trip" % t[1]); continue
            if ok[0] != 1:
                viol.append("a grid written in %s form could not be read back" % t[1]); continue
            rnx = vals(out, idx, "nx"); rlo = vals(out, idx, "lo"); rw = vals(out, idx, "w"); rdata = vals(out, idx, "data")
            if rnx != g[2]:
                viol.append("%s round trip: sizes %r became %r" % (t[1], g[2], rnx)); continue
            text = not t[1].endswith("bin")
            tol = (lambda a, b: abs(a - b) <= 1e-12 * max(1.0, abs(a))) if text else (lambda a, b: a == b)
            if len(rlo) != len(g[3]) or not all(tol(a, b) for a, b in zip(rlo, g[3])) or not all(tol(a, b) for a, b in zip(rw, g[4])):
                viol.append("%s round trip: boundaries / widths %r %r became %r %r" % (t[1], g[3], g[4], rlo, rw)); continue
            if len(rdata) != len(gdata) or not all((abs(a - b) <= 2e-14 * abs(b) + 1e-300) if (text and t[1] == "multicol") else tol(a, b) for a, b in zip(rdata, gdata)):
                bad = next((i for i, (a, b) in enumerate(zip(rdata, gdata)) if a != b), None)
                viol.append("%s round trip: data changed (entry %s: %r -> %r)" % (t[1], bad, gdata[bad] if bad is not None else None, rdata[bad] if bad is not None else None)); continue
            if t[1] == "multicol":
                gp = [int(x) for x in L[[i for i, l in enumerate(L[:idx]) if l.startswith("g.new")][-1]].split()[3 + 3 * g[1]:3 + 4 * g[1]]]
                rper = vals(out, idx, "per")
                if rper != gp:
                    viol.append("multicol round trip: periodicity flags %r became %r" % (gp, rper))
        elif t[0] == "g.rtx":
            r = next((x for x in case["meta"].get("rtx", []) if x["line"] == idx), None)
            ok = vals(out, idx, "ok")
            if r is None or ok is None:
                viol.append("no result for the restart block read by a differently shaped grid"); continue
            if ok[0] != 1:
                viol.append("a restart block of a grid on a periodic variable could not be read by another grid of the same variable"); continue
            rnx = vals(out, idx, "nx"); rlo = vals(out, idx, "lo"); rw = vals(out, idx, "w"); rper = vals(out, idx, "per"); pw = vals(out, idx, "perw")
            rdata = vals(out, idx, "data") or []
            what = "%s block of a grid over [%r, %r) of a variable with period %r read by a grid set up with %d bins" % (
                t[1], r["loW"], r["loW"] + r["nW"] * r["w"], r["P"], r["nR"])
            if rnx != [r["nW"]] or abs(rlo[0] - r["loW"]) > 1e-12 * max(1.0, abs(r["loW"])) or abs(rw[0] - r["w"]) > 1e-12:
                viol.append("%s: sizes / boundary / width %r %r %r are not those written (%d, %r, %r)" % (what, rnx, rlo, rw, r["nW"], r["loW"], r["w"])); continue
            if rdata != [float(i + 1) for i in range(r["nW"])]:
                viol.append("%s: data changed" % what); continue
            want = 1 if r["full"] else 0
            if pw != [want]:
                viol.append("%s: the grid written has periodicity flag %r although it spans %s" % (what, pw, "a whole period" if r["full"] else "part of a period")); continue
            if rper != [want]:
                viol.append("%s: the grid read back has periodicity flag %r, the grid written has %r" % (what, rper, pw))
        elif t[0] == "g.counts" and g:
            gcnt = [int(x) for x in t[1:]]
        elif t[0] == "g.rtgrad" and g:
            ok = vals(out, idx, "ok")
            what = "gradient grid %s its count grid, %s form" % ("without" if "nocount" in t else "with", t[1])
            if ok is None:
                viol.append("no result for the round trip (%s)" % what); continue
            if ok[0] != 1:
                viol.append("%s: could not be read back" % what); continue
            rnx = vals(out, idx, "nx"); rdata = vals(out, idx, "data") or []; rcnt = vals(out, idx, "cnt") or []
            if rnx != g[2]:
                viol.append("%s: sizes %r became %r" % (what, g[2], rnx)); continue
            fac = 2.0 if t[1] == "multicoladd" else 1.0
            exact = t[1] in ("rawbin", "restartbin") and "nocount" in t     # (with a count grid every form carries sum / count)
            bad = [i for i in range(len(gdata)) if i >= len(rdata) or not ((rdata[i] == fac * gdata[i]) if exact else abs(rdata[i] - fac * gdata[i]) <= 1e-12 * max(abs(gdata[i]), 1e-300) + 0.0)]
            if len(rdata) != len(gdata) or bad:
                i = bad[0] if bad else None
                viol.append("%s: data changed (entry %s, variable %s of its point: written %r, %s read back %r)" % (
                    what, i, (i % g[0]) if i is not None else None, gdata[i] if i is not None else None,
                    "added to itself and" if fac == 2.0 else "", rdata[i] if i is not None and i < len(rdata) else None)); continue
            if "nocount" not in t and rcnt != [int(fac) * c_ for c_ in gcnt]:
                viol.append("%s: counts %r became %r" % (what, gcnt, rcnt))
        elif t[0] == "g.bin" and g:
            i = int(t[1]); x = bits_to_f(t[2])
            b = vals(out, idx, "bin")
            if b is None:
                viol.append("no bin"); continue
            b = b[0]
            lo_e = g[3][i] + b * g[4][i]; hi_e = g[3][i] + (b + 1) * g[4][i]
            tol = 1e-9 * max(1.0, abs(x), abs(lo_e))
            if not (lo_e - tol <= x < hi_e + tol):
                viol.append("value %r assigned to bin %d = [%r,%r) which does not contain it" % (x, b, lo_e, hi_e))
        elif t[0] == "g.enum" and g:
            cnt = vals(out, idx, "count"); ad = vals(out, idx, "addrs")
            npts = 1
            for v in g[2]:
                npts *= v
            if cnt is None or cnt[0] != npts:
                viol.append("enumeration visits %r points, grid has %d" % (cnt, npts)); continue
            if ad != [g[0] * k for k in range(npts)]:
                viol.append("enumeration does not visit every address exactly once in order")
    return viol
