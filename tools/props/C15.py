"""C15 — every sample lands in exactly one grid bin; index arithmetic; grid files round-trip."""
from cvlib import fbits, bits_to_f, tok_val

RULE = ("grids of 1-3 dimensions with random sizes 1..7, dyadic and generic lower boundaries/widths, mixed periodicity and "
        "multiplicity 1..3; per grid: values on bin edges (exact dyadic), inside, outside and far outside; every index "
        "vector in a box one larger than the grid; full enumeration by incr; non-trivial = grid has >1 point; distinct by op text")


def gen(rng, tier):
    n = 60 if tier == "quick" else 1200
    cases = []
    for k in range(n):
        nd = rng.randint(1, 3)
        nx = [rng.randint(1, 7) for _ in range(nd)]
        mult = rng.randint(1, 3)
        dy = rng.rand() < 0.6
        lo = [rng.dyadic(-8, 8, 3) if dy else rng.uniform(-8, 8) for _ in range(nd)]
        w = [rng.choice([0.25, 0.5, 1.0, 2.0, 0.125]) if dy else rng.uniform(0.05, 3.0) for _ in range(nd)]
        per = [1 if rng.rand() < 0.4 else 0 for _ in range(nd)]
        lines = ["m.new 2",
                 "g.new %d %d %s %s %s %s" % (mult, nd, " ".join(map(str, nx)), " ".join(map(fbits, lo)),
                                              " ".join(map(fbits, w)), " ".join(map(str, per)))]
        for i in range(nd):
            for _ in range(6):
                r = rng.rand()
                if r < 0.4:   # exactly on an edge
                    x = lo[i] + rng.randint(-2, nx[i] + 2) * w[i]
                elif r < 0.8:
                    x = rng.uniform(lo[i] - 2 * w[i], lo[i] + (nx[i] + 2) * w[i])
                else:
                    x = rng.uniform(-1e4, 1e4)
                lines.append("g.bin %d %s" % (i, fbits(x)))
                lines.append("g.binb %d %s" % (i, fbits(x)))
            lines.append("g.val %d %d" % (i, rng.randint(-2, nx[i] + 1)))
        for _ in range(8):
            ix = [rng.randint(-1, nx[i]) for i in range(nd)]
            lines.append("g.addr " + " ".join(map(str, ix)))
            ixok = [rng.randint(0, nx[i] - 1) for i in range(nd)]
            lines.append("g.incr " + " ".join(map(str, ixok)))
            ixw = [rng.randint(-nx[i], 2 * nx[i] - 1) if per[i] else rng.randint(0, nx[i] - 1) for i in range(nd)]
            lines.append("g.wrap " + " ".join(map(str, ixw)))
        lines.append("g.enum")
        # init_from_boundaries
        l0 = rng.dyadic(-4, 4, 2); w0 = rng.choice([0.25, 0.5, 1.0, 0.1, 0.3, rng.uniform(0.1, 1.0)])
        hi = l0 + rng.randint(1, 12) * w0 + rng.choice([0.0, 0.0, 0.3 * w0, -0.2 * w0])
        lines.append("g.sizes %s %s %s" % (fbits(l0), fbits(hi), fbits(w0)))
        npts = 1
        for v in nx:
            npts *= v
        cases.append({"lines": lines, "meta": {"nd": nd, "nx": nx, "mult": mult, "per": per, "dyadic": dy}, "nontrivial": npts > 1})
    return cases


def distribution(cases):
    d = {"nd": {}, "periodic_dims": 0, "dyadic": 0}
    for c in cases:
        m = c["meta"]
        if "nd" not in m:
            continue
        d["nd"][m["nd"]] = d["nd"].get(m["nd"], 0) + 1
        d["periodic_dims"] += sum(m["per"]); d["dyadic"] += int(m["dyadic"])
    return d


def vals(out, ln, tag):
    v = out.get((ln, tag, 1))
    return None if v is None else [tok_val(t)[1] for t in v]


def oracle(case, out):
    viol = []
    L = case["lines"]
    g = None
    for idx, line in enumerate(L, 1):
        t = line.split()
        if t[0] == "g.new":
            mult, nd = int(t[1]), int(t[2])
            nx = [int(x) for x in t[3:3 + nd]]
            lo = [bits_to_f(x) for x in t[3 + nd:3 + 2 * nd]]
            w = [bits_to_f(x) for x in t[3 + 2 * nd:3 + 3 * nd]]
            g = (mult, nd, nx, lo, w)
        elif t[0] == "g.bin" and g:
            i = int(t[1]); x = bits_to_f(t[2])
            b = vals(out, idx, "bin")
            if b is None:
                viol.append("no bin"); continue
            b = b[0]
            lo_e = g[3][i] + b * g[4][i]; hi_e = g[3][i] + (b + 1) * g[4][i]
            tol = 1e-9 * max(1.0, abs(x), abs(lo_e))
            if not (lo_e - tol <= x < hi_e + tol):
                viol.append("value %r assigned to bin %d = [%r,%r) which does not contain it" % (x, b, lo_e, hi_e))
        elif t[0] == "g.enum" and g:
            cnt = vals(out, idx, "count"); ad = vals(out, idx, "addrs")
            npts = 1
            for v in g[2]:
                npts *= v
            if cnt is None or cnt[0] != npts:
                viol.append("enumeration visits %r points, grid has %d" % (cnt, npts)); continue
            if ad != [g[0] * k for k in range(npts)]:
                viol.append("enumeration does not visit every address exactly once in order")
    return viol
