"""C07 — total-force measurement is the inverse of force application."""
import math
import cvlib
from cvlib import fbits, tok_val, esc
from cvscen import cfg, pos, tf, num, inj_cv
from cvcomp import COMPONENTS, EXTRA, NAT, WITH_TOTAL_FORCE, grp, vec

RULE = ("variables made of one component with total-force support (distance, distanceZ fixed axis and ref2, distanceXY, angle, dihedral, "
        "gyration, rmsd, eigenvector) or a +/-1 combination of two on disjoint atoms, random groups / masses, oneSiteTotalForce, both "
        "force-timing conventions: (a) the engine's forces are set to f x (atomic gradient of the variable) [+ random forces on atoms "
        "outside its groups] and the reported total force must be f (+ k_B T x Jacobian derivative when a temperature is set); "
        "(b) linearity: total forces for F1, F2, F1+F2 and 2.5 F1; (c) closed loop: the engine returns Colvars' own applied "
        "forces one step later (late convention) and the reported total force equals the force applied at the previous step, or zero "
        "with subtractAppliedForce; modelled components are also predicted by the Lean model; non-trivial = f non-zero; distinct by op text")
ASSUMPTIONS = ["positions are kept fixed while forces are varied, so that the forces of one step are projected with the geometry they belong to",
               "Jacobian derivatives are checked for distance (2/r), distanceZ (0), distanceXY (1/r), gyration ((3N-4)/Rg) only"]
KB = 0.001987191


def one_variable(rng, P, kinds=None, temp=0.0):
    kinds = kinds or WITH_TOTAL_FORCE
    k1 = rng.choice(kinds)
    combo = rng.rand() < 0.3
    pool = list(range(NAT)); rng.shuffle(pool)
    text = "colvar {\n name q\n outputTotalForce on\n"
    info = []
    used = []
    for ci in range(2 if combo else 1):
        k = k1 if ci == 0 else rng.choice([x for x in kinds if x not in ("rmsd", "eigenvector")])
        # disjoint atoms for the second component
        sub = [a for a in pool if a not in used]
        class R2:
            pass
        r2 = cvlib.Rng(rng.randint(1, 1 << 30))
        # draw the template on a relabelled pool: build with a private rng and map atoms onto the free ones
        tries = 0
        while True:
            tries += 1
            t, groups = (COMPONENTS.get(k) or EXTRA[k])[1](r2, P, "")
            atoms = sorted(set(a for g in groups for a in g))
            if len(atoms) <= len(sub):
                break
            if tries > 20:
                return None
        mp = dict(zip(atoms, sub[:len(atoms)]))
        def remap(txt):
            out = []
            for line in txt.split("\n"):
                if "atomNumbers" in line:
                    w = line.split()
                    i = w.index("atomNumbers")
                    nums = [str(mp[int(x) - 1] + 1) for x in w[i + 1:]]
                    line = line[:line.index("atomNumbers")] + "atomNumbers " + " ".join(nums)
                out.append(line)
            return "\n".join(out)
        if "refPositions" in t:
            if combo:
                return None
            mp = {a: a for a in atoms}
        else:
            t = remap(t)
        groups = [[mp[a] for a in g] for g in groups]
        used += [mp[a] for a in atoms]
        coeff = 1.0 if not combo else rng.choice([1.0, -1.0])
        one = k in ("distance", "distanceZ", "distanceXY", "angle", "dihedral") and rng.rand() < 0.4 and not combo
        extra = ("  componentCoeff %s\n" % num(coeff)) + ("  oneSiteTotalForce on\n" if one else "")
        text += " " + (t + extra).replace("\n", "\n ") + "}\n"
        info.append({"kind": k, "coeff": coeff, "one": one, "groups": groups})
    text += "}\n"
    return text, info, sorted(set(used))


def gen(rng, tier):
    cases = []
    # components covered by the Lean model: value, gradients and total force are predicted
    from props.C01 import modelled_case
    for k in range(10 if tier == "quick" else 100):
        cases.append(modelled_case(rng, ["distance", "distanceZ", "distanceXY", "gyration"][k % 4], with_tf=True))
    n0 = len(cases)
    n = n0 + (40 if tier == "quick" else 400)
    while len(cases) < n:
        P = [[rng.uniform(-3, 3) for _ in range(3)] for _ in range(NAT)]
        same = rng.rand() < 0.5
        temp = rng.choice([0.0, 0.0, 300.0])
        sym = len(cases) % 8 == 3      # rmsd with an atomPermutation line, the permuted reference being the one that fits
        rotf = len(cases) % 8 == 5     # a group seen in the frame of a separate fitting group whose reference is turned by a large rotation
        r = one_variable(rng, P, kinds=["rmsd_perm"]) if sym else (one_variable(rng, P, kinds=["distance_rot", "distanceZ_rot"]) if rotf else one_variable(rng, P))
        if sym:
            temp = 0.0                 # (the Jacobian term of the symmetry-adapted rmsd is not among the documented ones)
        if r is None:
            continue
        text, info, used = r
        outside = [a for a in range(NAT) if a not in used]
        masses = [rng.choice([1.0, 12.0, 14.0, 16.0]) for _ in range(NAT)]
        L = ["m.new %d" % NAT, "M.noclock", "m.opt tf_same %d" % int(same), "m.opt tfloop 0", "m.opt temp %s" % fbits(temp)]
        for a in range(NAT):
            L.append("m.mass %d %s" % (a, fbits(masses[a])))
        L.append(cfg(text)); cl = len(L)
        L.append("g.collect q")
        for a in range(NAT):
            L.append(pos(a, *P[a])); L.append(tf(a, 0.0, 0.0, 0.0))
        L += ["m.step", "m.step"]
        L.append("m.cv q ft"); zero = len(L)
        probes = {}
        f = rng.uniform(-5, 5)
        # (a) inverse
        L += ["g.tfset q %s" % fbits(f), "m.step", "m.cv q ft"]; probes["inv"] = len(L)
        for a in outside:
            L.append(tf(a, rng.uniform(-9, 9), rng.uniform(-9, 9), rng.uniform(-9, 9)))
        L += ["m.step", "m.cv q ft"]; probes["inv_outside"] = len(L)
        # (b) linearity
        F1 = [[rng.uniform(-4, 4) for _ in range(3)] for _ in range(NAT)]
        F2 = [[rng.uniform(-4, 4) for _ in range(3)] for _ in range(NAT)]
        def setf(F):
            return [tf(a, *F[a]) for a in range(NAT)]
        L += setf(F1) + ["m.step", "m.cv q ft"]; probes["F1"] = len(L)
        L += setf(F2) + ["m.step", "m.cv q ft"]; probes["F2"] = len(L)
        L += setf([[x + y for x, y in zip(a, b)] for a, b in zip(F1, F2)]) + ["m.step", "m.cv q ft"]; probes["F12"] = len(L)
        L += setf([[2.5 * x for x in a] for a in F1]) + ["m.step", "m.cv q ft"]; probes["F1s"] = len(L)
        cases.append({"lines": L, "meta": {"kind": "projection", "comps": info, "same": same, "temp": temp, "f": f, "cfg": cl, "zero": zero,
                                            "probes": probes, "natoms_used": len(used)}, "nontrivial": True})
    # (c) closed loop, late convention
    m = 16 if tier == "quick" else 160
    while len(cases) < n + m:
        P = [[rng.uniform(-3, 3) for _ in range(3)] for _ in range(NAT)]
        r = one_variable(rng, P, kinds=[k for k in WITH_TOTAL_FORCE if k not in ("rmsd", "eigenvector")])
        if r is None:
            continue
        text, info, used = r
        sub = rng.rand() < 0.5
        if sub:
            text = text.replace(" outputTotalForce on\n", " outputTotalForce on\n subtractAppliedForce on\n")
        L = ["m.new %d" % NAT, "M.noclock", "m.opt tf_same 0", "m.opt tfloop 1", "m.opt temp %s" % fbits(0.0)]
        for a in range(NAT):
            L.append("m.mass %d %s" % (a, fbits(rng.choice([1.0, 12.0, 16.0]))))
        L.append(cfg(text)); cl = len(L)
        # the applied force comes from a harmonic restraint, from walls (whose force reaches the variable through the
        # "actual value" path, bypassing any extended Lagrangian), from a linear restraint, or from several of them
        bk = ["harmonic", "walls", "harmonic+walls", "linear+walls"][len(cases) % 4]
        if "harmonic" in bk:
            L.append(cfg("harmonic {\n name b\n colvars q\n centers %s\n forceConstant %s\n}\n" % (num(rng.uniform(-2, 2)), num(rng.uniform(0.5, 2.0)))))
        if "linear" in bk:
            L.append(cfg("linear {\n name bl\n colvars q\n centers 0.0\n forceConstant %s\n}\n" % num(rng.uniform(0.5, 2.0))))
        if "walls" in bk:
            lw = rng.uniform(-2, 2)
            L.append(cfg("harmonicWalls {\n name bw\n colvars q\n lowerWalls %s\n upperWalls %s\n forceConstant %s\n}\n" % (num(lw), num(lw + 0.001), num(rng.uniform(0.5, 2.0)))))
        for a in range(NAT):
            L.append(pos(a, *P[a])); L.append(tf(a, 0.0, 0.0, 0.0))
        lines = []
        for s in range(4):
            L.append("m.step"); L.append("m.cv q ft fa"); lines.append(len(L))
        cases.append({"lines": L, "meta": {"kind": "loop", "comps": info, "subtract": sub, "bias": bk, "cfg": cl, "steps": lines}, "nontrivial": True})
    # (d) late convention at finite temperature with moving atoms: the Jacobian term belongs to the step the forces refer to
    for k in range(6 if tier == "quick" else 60):
        P = [[rng.uniform(-3, 3) for _ in range(3)] for _ in range(NAT)]
        r = one_variable(rng, P, kinds=["distance", "distanceXY"])
        if r is None or len(r[1]) != 1:
            continue
        text, info, used = r
        L = ["m.new %d" % NAT, "M.noclock", "m.opt tf_same 0", "m.opt tfloop 0", "m.opt temp %s" % fbits(300.0)]
        for a in range(NAT):
            L.append("m.mass %d %s" % (a, fbits(rng.choice([1.0, 12.0, 16.0]))))
        L.append(cfg(text)); cl = len(L)
        lines = []
        for s_ in range(5):
            P = [[x + rng.uniform(-0.4, 0.4) for x in p] for p in P]
            for a in range(NAT):
                L.append(pos(a, *P[a])); L.append(tf(a, 0.0, 0.0, 0.0))
            L.append("m.step"); L.append("m.cv q ft"); lines.append(len(L))
        cases.append({"lines": L, "meta": {"kind": "jacobian_timing", "comps": info, "cfg": cl, "steps": lines}, "nontrivial": True})
    # the engine's total force on the variable is exactly zero (late forces, subtractAppliedForce): the applied force of the previous step
    # must still be excluded (listed finding: the code takes an exactly-zero total force for "not measured")
    for k in range(1 if tier == "quick" else 4):
        kf = rng.choice([2.0, 5.0]); c0 = rng.uniform(0.5, 1.5); w = 0.5
        conf = inj_cv("x0", 0, -3.0, 3.0, w, extra="  subtractAppliedForce on\n  outputTotalForce on\n")
        L = ["m.new 1", "M.noclock", "m.opt tf_same 0", "m.opt tfloop 0", "m.opt temp %s" % fbits(0.0), cfg(conf)]; cl = len(L)
        L.append(cfg("harmonic {\n name h\n colvars x0\n centers %s\n forceConstant %s\n}\n" % (num(c0), num(kf))))
        xs = []; marks = []
        for t in range(4):
            x = rng.uniform(-1, 0)
            L += [pos(0, 0.0, 0.0, x), tf(0, 0.0, 0.0, 0.0), "m.step", "m.cv x0 ft fa"]; xs.append(x); marks.append(len(L))
        cases.append({"lines": L, "meta": {"kind": "zero_total", "cfg": cl, "k": kf, "c": c0, "w": w, "xs": xs, "marks": marks, "comps": []}, "nontrivial": True})
    return cases


def distribution(cases):
    d = {"components": {}, "same_step": 0, "temperature": 0, "combination": 0, "loop": 0, "loop_subtract": 0}
    for c in cases:
        m = c["meta"]
        if "comps" not in m:
            continue
        if m.get("kind") == "zero_total":
            d["zero_total"] = d.get("zero_total", 0) + 1
            continue
        for ci in m["comps"]:
            d["components"][ci["kind"]] = d["components"].get(ci["kind"], 0) + 1
        d["combination"] += int(len(m["comps"]) > 1)
        if m["kind"] == "projection":
            d["same_step"] += int(m["same"]); d["temperature"] += int(m["temp"] > 0)
        elif m["kind"] == "jacobian_timing":
            d["jacobian_timing"] = d.get("jacobian_timing", 0) + 1
        else:
            d["loop"] += 1; d["loop_subtract"] += int(m["subtract"])
    return d


def val(out, ln, tag):
    v = out.get((ln, tag, 1))
    return None if v is None else tok_val(v[0])[1]


def close(a, b, scale=1.0):
    return abs(a - b) <= 1e-8 * max(1.0, abs(a), abs(b), scale)


def oracle(case, out):
    m = case["meta"]
    if m.get("kind") == "zero_total":
        for t in range(1, len(m["xs"])):
            f_old = -m["k"] / (m["w"] ** 2) * (m["xs"][t - 1] - m["c"])
            ft = val(out, m["marks"][t], "ft")
            if ft is None:
                return [(None, "no total force reported")]
            if abs(ft - (0.0 - f_old)) > 1e-9 * max(1.0, abs(f_old)):
                return [("subtractAppliedForce: an exactly zero total force is taken for 'not measured'",
                         "step %d: the engine's total force on the variable is exactly 0 and Colvars applied %r at the previous step; with subtractAppliedForce the "
                         "reported total force must be %r, it is %r" % (t, f_old, -f_old, ft))]
        return []
    if "comps" not in m:
        return []
    if out.get((m["cfg"], "rc", 1)) != ["i0"]:
        return []
    what = "+".join(("-" if c["coeff"] < 0 else "") + c["kind"] + ("(one site)" if c["one"] else "") for c in m["comps"])
    if m["kind"] == "projection":
        pr = m["probes"]
        ft0 = val(out, m["zero"], "ft")
        g = {k: val(out, ln, "ft") for k, ln in pr.items()}
        if ft0 is None or any(v is None for v in g.values()):
            return []
        if not all(math.isfinite(v) for v in list(g.values()) + [ft0]):
            return ["%s: non-finite total force" % what]
        conv = "same-step" if m["same"] else "late"
        # with zero atomic forces only the Jacobian term is reported
        jac = ft0
        x = val(out, m["zero"], "x")
        if len(m["comps"]) == 1 and x is not None:
            k = m["comps"][0]["kind"]; q = x / m["comps"][0]["coeff"]
            jd = {"distance": 2.0 / q, "distanceZ": 0.0, "distanceXY": 1.0 / q}.get(k) if q else None
            if jd is not None:
                exp = KB * m["temp"] * jd / m["comps"][0]["coeff"]
                if abs(ft0 - exp) > 1e-6 * max(1.0, abs(exp)):
                    return ["%s at T = %g: with zero atomic forces the total force is %r, k_B T x (Jacobian derivative) is %r" % (what, m["temp"], ft0, exp)]
        if m["temp"] == 0.0 and abs(ft0) > 1e-10:
            return ["%s (%s forces): with zero atomic forces and zero temperature the total force is %r" % (what, conv, ft0)]
        if not close(g["inv"] - jac, m["f"], abs(m["f"])):
            return ["%s (%s forces%s): atoms carry exactly the forces of a variable force %r, the reported total force is %r (Jacobian term %r)"
                    % (what, conv, ", T=%g" % m["temp"] if m["temp"] else "", m["f"], g["inv"], jac)]
        if not close(g["inv_outside"], g["inv"], abs(m["f"])):
            return ["%s (%s forces): forces on atoms outside the variable's groups change the total force from %r to %r" % (what, conv, g["inv"], g["inv_outside"])]
        s = max(abs(g["F1"]), abs(g["F2"]), 1.0)
        if not close((g["F12"] - jac), (g["F1"] - jac) + (g["F2"] - jac), s):
            return ["%s (%s forces): the total force is not additive in the atomic forces: %r + %r vs %r (Jacobian term %r)" % (what, conv, g["F1"], g["F2"], g["F12"], jac)]
        if not close((g["F1s"] - jac), 2.5 * (g["F1"] - jac), s):
            return ["%s (%s forces): scaling the atomic forces by 2.5 scales the total force from %r to %r" % (what, conv, g["F1"], g["F1s"])]
        return []
    if m["kind"] == "jacobian_timing":
        k = m["comps"][0]["kind"]; c = m["comps"][0]["coeff"]
        xs = [val(out, ln, "x") for ln in m["steps"]]; fts = [val(out, ln, "ft") for ln in m["steps"]]
        if any(v is None for v in xs + fts):
            return []
        for s in range(1, len(xs)):
            q = xs[s - 1] / c
            exp = KB * 300.0 * ({"distance": 2.0, "distanceXY": 1.0}[k] / q) / c
            if abs(fts[s] - exp) > 1e-6 * max(1.0, abs(exp)):
                now = KB * 300.0 * ({"distance": 2.0, "distanceXY": 1.0}[k] / (xs[s] / c)) / c
                return ["%s, late forces, T = 300, no atomic forces: total force reported at step %d is %r; the Jacobian term of the step the forces refer to (step %d) is %r, "
                        "that of the current step is %r" % (what, s, fts[s], s - 1, exp, now)]
        return []
    # closed loop
    fts = [val(out, ln, "ft") for ln in m["steps"]]; fas = [val(out, ln, "fa") for ln in m["steps"]]
    if any(v is None for v in fts + fas):
        return []
    for s in range(2, 4):
        exp = 0.0 if m["subtract"] else fas[s - 1]
        if not close(fts[s], exp, abs(fas[s - 1])):
            return ["%s under %s, late forces returned by the engine%s: total force at step %d is %r, the force applied at step %d was %r"
                    % (what, m.get("bias", "harmonic"), ", subtractAppliedForce" if m["subtract"] else "", s, fts[s], s - 1, fas[s - 1])]
    return []
