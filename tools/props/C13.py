"""C13 — defining then deleting objects is the identity; the dependency graph stays consistent."""
import os, subprocess, math
import cvbuild, cvlib
from cvlib import fbits, bits_to_f, tok_val, esc
from cvscen import inj_cv, cfg, pos, tf, num

RULE = ("sequences of 6-25 operations over {add variable (distance / angle / distanceZ / dihedral on overlapping atom sets), "
        "add bias (harmonic, harmonicWalls, histogram, abf, metadynamics) on 1-2 existing variables, delete bias, delete variable, "
        "reset, step}; after every operation the consistency conditions are evaluated on the real dependency graph; at the end "
        "the survivors' values, energy, atom forces and atom reference counts are compared over 3 steps with a fresh instance "
        "that only ever had the survivors; separately, enable/disable calls on snapshots of the real graph are replayed through "
        "the Lean model; non-trivial = at least one deletion; distinct by op text")
ASSUMPTIONS = ["feature tables are regenerated from the source and cross-checked against the tables of the running library",
               "the recursion of the dependency engine is modelled with fuel 64 (deepest chain observed is far shorter)"]

NATOMS = 8


def cv_conf(rng, name):
    kind = rng.choice(["distance", "distance", "angle", "dihedral", "inj", "distance_fit"])
    a = rng.shuffle(list(range(1, NATOMS + 1)))
    ext = "  width 0.5\n  lowerBoundary 0.0\n  upperBoundary 8.0\n"
    if kind == "distance":
        g1 = sorted(a[:rng.randint(1, 2)]); g2 = sorted(a[2:2 + rng.randint(1, 2)])
        sel2 = "atomNumbers %s" % " ".join(map(str, g2))
        if rng.rand() < 0.4:
            lo_ = rng.randint(1, NATOMS - 2)
            sel2 = "atomNumbers %d\n      atomNumbersRange %d-%d" % (g2[0], lo_, lo_ + rng.randint(0, 2))   # two selection keywords
        body = "  distance {\n    group1 { atomNumbers %s }\n    group2 { %s }\n  }\n" % (" ".join(map(str, g1)), sel2)
    elif kind == "distance_fit":
        g1 = sorted(a[:2]); g2 = sorted(a[2:4])
        body = ("  distance {\n    group1 { atomNumbers %s }\n    group2 { atomNumbers %s\n      centerToReference on\n      rotateToReference on\n"
                "      refPositions (0.0, 0.0, 0.0) (1.0, 0.5, 0.0)\n      fittingGroup { atomNumbers %s }\n"
                "      refPositions (0.0, 0.0, 0.0) (1.0, 0.5, 0.0)\n    }\n  }\n") % (" ".join(map(str, g1)), " ".join(map(str, g2)), " ".join(map(str, sorted(a[4:6]))))
        body = "  distance {\n    group1 { atomNumbers %s }\n    group2 { atomNumbers %s }\n  }\n" % (" ".join(map(str, g1)), " ".join(map(str, g2)))
    elif kind == "angle":
        body = "  angle {\n    group1 { atomNumbers %d }\n    group2 { atomNumbers %d }\n    group3 { atomNumbers %d }\n  }\n" % (a[0], a[1], a[2])
        ext = "  width 5.0\n  lowerBoundary 0.0\n  upperBoundary 180.0\n"
    elif kind == "dihedral":
        body = "  dihedral {\n    group1 { atomNumbers %d }\n    group2 { atomNumbers %d }\n    group3 { atomNumbers %d }\n    group4 { atomNumbers %d }\n  }\n" % (a[0], a[1], a[2], a[3])
        ext = "  width 10.0\n  lowerBoundary -180.0\n  upperBoundary 180.0\n"
    else:
        body = "  distanceZ {\n    main { atomNumbers %d }\n    ref { dummyAtom (0.0, 0.0, 0.0) }\n    axis (0.0, 0.0, 1.0)\n  }\n" % a[0]
        ext = "  width 0.5\n  lowerBoundary -4.0\n  upperBoundary 4.0\n"
    return "colvar {\n  name %s\n%s%s}\n" % (name, ext, body), kind


def bias_conf(rng, name, cvs, kinds):
    kind = rng.choice(["harmonic", "harmonic", "walls", "histogram", "abf", "meta"])
    if kind in ("abf",) and any(kinds[c] in ("angle",) for c in cvs):
        pass
    names = " ".join(cvs)
    # a third of the restraints have a time-step factor: they are asleep (inactive) at most steps, and may be deleted in that state
    tsf = rng.choice(["", "", " timeStepFactor 2\n", " timeStepFactor 3\n"])
    if kind == "harmonic":
        return "harmonic {\n name %s\n colvars %s\n forceConstant 1.5\n centers %s\n%s}\n" % (name, names, " ".join("1.0" for _ in cvs), tsf), kind
    if kind == "walls":
        return "harmonicWalls {\n name %s\n colvars %s\n forceConstant 2.0\n upperWalls %s\n%s}\n" % (name, names, " ".join("1.5" for _ in cvs), tsf), kind
    if kind == "histogram":
        return "histogram {\n name %s\n colvars %s\n}\n" % (name, names), kind
    if kind == "abf":
        # hideJacobian switches a feature on inside the variables; it must go away with the bias
        hj = " hideJacobian on\n" if rng.rand() < 0.5 else ""
        return "abf {\n name %s\n colvars %s\n fullSamples 2\n integrate off\n%s}\n" % (name, names, hj), kind
    return "metadynamics {\n name %s\n colvars %s\n hillWeight 0.1\n newHillFrequency 2\n hillWidth 2.0\n useGrids off\n}\n" % (name, names), kind


def traj(rng, n):
    T = []
    P = [[rng.uniform(-3, 3) for _ in range(3)] for _ in range(NATOMS)]
    for _ in range(n):
        P = [[x + rng.uniform(-0.3, 0.3) for x in p] for p in P]
        F = [[rng.uniform(-2, 2) for _ in range(3)] for _ in range(NATOMS)]
        T.append((P, F))
    return T


def step_lines(P, F):
    L = []
    for a in range(NATOMS):
        L.append(pos(a, P[a][0], P[a][1], P[a][2])); L.append(tf(a, F[a][0], F[a][1], F[a][2]))
    return L


def gen(rng, tier):
    n = 25 if tier == "quick" else 300
    cases = []
    for k in range(n):
        nops = rng.randint(6, 25)
        lines = ["m.new %d" % NATOMS, "M.noclock", "m.opt temp %s" % fbits(300.0)]     # (a temperature: Jacobian terms are not zero)
        if k == 0:
            # (after a variable exists: colvar::init adds a run-time exclusion to the shared table)
            lines.append(cfg(inj_cv("tab", 0, -3.0, 3.0, 0.5) + "harmonic {\n name tabb\n colvars tab\n centers 0.0\n forceConstant 1.0\n}\n"))
            lines.append("d.tables"); lines.append("m.scriptq cv bias tabb delete"); lines.append("m.scriptq cv colvar tab delete")
        cvs = {}     # name -> conf
        kinds = {}
        biases = {}  # name -> (conf, [cvs])
        order = []   # creation order of survivors (names)
        ncv = nb = 0
        ndel = 0
        T = traj(rng, nops + 12)
        ti = 0
        checks = []
        oplog = []
        had = set()      # variables that lost a bias by deletion
        # a quarter of the cases start with a directed prefix: two biases on one variable, one of them with a time-step
        # factor, deleted at a step where it is asleep (its dependencies on the variable are released at that moment)
        forced = []
        if k % 4 == 1:
            forced = ["cv", "bias_tsf", "bias_plain", "step"] + ["step"] * rng.randint(0, 2) + ["del_first"]
            nops += len(forced)
        if k % 4 == 2:
            # directed: an ABF bias that hides the Jacobian force of a distance variable, next to a restraint; the ABF is deleted
            forced = ["cv_dist", "bias_abfhj", "bias_plain", "step", "step", "del_first"]
            nops += len(forced)
        if k % 8 == 7:
            # directed: three ABF biases on one distance variable, the first two hiding the Jacobian force, the last one not; the first is
            # deleted: the second still needs the hidden-Jacobian mode of the variable
            forced = ["cv_dist", "bias_abfhj", "bias_abfhj", "bias_abfplain", "step", "step", "del_first"]
            nops = len(forced)
        if k % 8 == 3:
            # directed: a variable with its own time-step factor n >= 3 and one restraint sharing it; the restraint is deleted at a step
            # that is neither a multiple of n nor the step before one, and the three closing steps follow at once (the variable must go on
            # sleeping exactly as if the restraint had never existed)
            ntsf = rng.choice([3, 4])
            nst = rng.choice([2, 5] if ntsf == 3 else [2, 3, 6, 7])
            forced = ["cv_tsf", "bias_same"] + ["step"] * nst + ["del_first"]
            nops = len(forced)
        for j in range(nops):
            r = rng.rand()
            f = forced.pop(0) if forced else None
            if f == "cv_tsf":
                name = "v%d" % ncv; ncv += 1
                conf = ("colvar {\n  name %s\n  width 0.5\n  lowerBoundary 0.0\n  upperBoundary 8.0\n  timeStepFactor %d\n  distance {\n    group1 { atomNumbers 1 2 }\n"
                        "    group2 { atomNumbers 3 }\n  }\n}\n") % (name, ntsf)
                lines.append(cfg(conf)); cvs[name] = conf; kinds[name] = "distance"; order.append(("cv", name)); oplog.append(("add", "cv", name, conf))
                lines.append("d.check"); checks.append(len(lines))
                continue
            if f == "bias_same":
                name = "b%d" % nb; nb += 1
                use = [sorted(cvs)[0]]
                conf = "harmonic {\n name %s\n colvars %s\n forceConstant 1.5\n centers 1.0\n timeStepFactor %d\n}\n" % (name, use[0], ntsf)
                lines.append(cfg(conf)); biases[name] = (conf, use); order.append(("bias", name)); oplog.append(("add", "bias", name, conf))
                lines.append("d.check"); checks.append(len(lines))
                continue
            if f == "cv_dist":
                name = "v%d" % ncv; ncv += 1
                conf = ("colvar {\n  name %s\n  width 0.5\n  lowerBoundary 0.0\n  upperBoundary 8.0\n  distance {\n    group1 { atomNumbers 1 2 }\n"
                        "    group2 { atomNumbers 3 }\n  }\n}\n") % name
                lines.append(cfg(conf)); cvs[name] = conf; kinds[name] = "distance"; order.append(("cv", name)); oplog.append(("add", "cv", name, conf))
                lines.append("d.check"); checks.append(len(lines))
                continue
            if f == "bias_abfhj":
                name = "b%d" % nb; nb += 1
                use = [sorted(cvs)[0]]
                conf = "abf {\n name %s\n colvars %s\n fullSamples 2\n integrate off\n hideJacobian on\n}\n" % (name, use[0])
                lines.append(cfg(conf)); biases[name] = (conf, use); order.append(("bias", name)); oplog.append(("add", "bias", name, conf))
                lines.append("d.check"); checks.append(len(lines))
                continue
            if f == "bias_abfplain":
                name = "b%d" % nb; nb += 1
                use = [sorted(cvs)[0]]
                conf = "abf {\n name %s\n colvars %s\n fullSamples 2\n integrate off\n}\n" % (name, use[0])
                lines.append(cfg(conf)); biases[name] = (conf, use); order.append(("bias", name)); oplog.append(("add", "bias", name, conf))
                lines.append("d.check"); checks.append(len(lines))
                continue
            if f == "cv":
                r = 0.0
            elif f in ("bias_tsf", "bias_plain"):
                name = "b%d" % nb; nb += 1
                use = [sorted(cvs)[0]]
                conf = "harmonic {\n name %s\n colvars %s\n forceConstant %s\n centers 1.0\n%s}\n" % (
                    name, use[0], "1.5" if f == "bias_tsf" else "2.5", " timeStepFactor %d\n" % rng.choice([2, 3]) if f == "bias_tsf" else "")
                lines.append(cfg(conf)); biases[name] = (conf, use); order.append(("bias", name)); oplog.append(("add", "bias", name, conf))
                lines.append("d.check"); checks.append(len(lines))
                continue
            elif f == "step":
                r = 0.99
            elif f == "del_first":
                name = sorted(biases)[0]
                lines.append("m.scriptq cv bias %s delete" % name); oplog.append(("skip",))
                had.update(biases[name][1])
                del biases[name]; order = [o for o in order if o != ("bias", name)]; ndel += 1
                lines.append("d.check"); checks.append(len(lines))
                continue
            if r < 0.3 or not cvs:
                name = "v%d" % ncv; ncv += 1
                conf, kind = cv_conf(rng, name)
                lines.append(cfg(conf)); cvs[name] = conf; kinds[name] = kind; order.append(("cv", name)); oplog.append(("add", "cv", name, conf))
            elif r < 0.55:
                name = "b%d" % nb; nb += 1
                m = rng.randint(1, min(2, len(cvs)))
                use = rng.shuffle(sorted(cvs))[:m]
                conf, kind = bias_conf(rng, name, use, kinds)
                lines.append(cfg(conf)); biases[name] = (conf, use); order.append(("bias", name)); oplog.append(("add", "bias", name, conf))
            elif r < 0.7 and biases:
                name = rng.choice(sorted(biases))
                lines.append("m.scriptq cv bias %s delete" % name); oplog.append(("skip",))
                had.update(biases[name][1])
                del biases[name]; order = [o for o in order if o != ("bias", name)]; ndel += 1
            elif r < 0.82 and cvs:
                name = rng.choice(sorted(cvs))
                lines.append("m.scriptq cv colvar %s delete" % name); oplog.append(("skip",))
                del cvs[name]
                gone = [b for b, (c, use) in biases.items() if name in use]
                for b in gone:
                    had.update(biases[b][1])
                    del biases[b]
                order = [o for o in order if o != ("cv", name) and not (o[0] == "bias" and o[1] in gone)]
                ndel += 1
            elif r < 0.86:
                lines.append("m.scriptq cv reset"); oplog.append(("reset",))
                cvs, biases, order, kinds = {}, {}, [], {}
                ndel += 1
            else:
                lines += step_lines(*T[ti]); oplog.append(("step", ti)); ti += 1
                lines.append("m.step")
            lines.append("d.check"); checks.append(len(lines))
        # identity: survivors vs a fresh instance that only ever had them, on the same 3 steps
        tail = T[ti:ti + 3]
        marks = {"old": [], "new": []}
        for which in ("old", "new"):
            if which == "new":
                # the same timeline with only the survivors: same steps, same resets, survivors created at the same points
                lines += ["m.new %d" % NATOMS, "M.noclock", "m.opt temp %s" % fbits(300.0)]
                alive = set(order)
                for o in oplog:
                    if o[0] == "add" and (o[1], o[2]) in alive:
                        lines.append(cfg(o[3]))
                    elif o[0] == "step":
                        lines += step_lines(*T[o[1]]) + ["m.step"]
                    elif o[0] == "reset":
                        lines.append("m.scriptq cv reset")
            for (P, F) in tail:
                lines += step_lines(P, F)
                lines.append("m.step"); marks[which].append(len(lines))
                lines.append("m.forces")
                for name in sorted(cvs):
                    lines.append("m.cv %s" % name)
            lines.append("d.check"); marks[which].append(len(lines))
        cases.append({"lines": lines, "meta": {"checks": checks, "marks": marks, "survivors": [list(o) for o in order], "ncvs": len(cvs),
                                                "cvnames": sorted(cvs), "bias_kinds": sorted(biases), "deletions": ndel, "tsf_vars": sorted(c for c in cvs if "timeStepFactor" in cvs[c]),
                                                # variables that lost a bias by deletion and are now used only by biases that can sleep (or by none): the listed
                                                # finding (top-level "active" is lost when the reference count returns to 0) shows whenever nothing awake needs them
                                                "orphaned": sorted(c for c in cvs if c in had and not any(c in use and "timeStepFactor" not in conf_ for (conf_, use) in biases.values()))},
                      "nontrivial": ndel > 0})
    # an extended-Lagrangian variable (awake every n-th step by its own time-step factor, whether or not a bias needs it) loses its only
    # bias: from then on its extended coordinate must move as that of a variable no bias acts on — every later integration follows
    # X' = X + h (V + h F / m), V' = V + h F / m with F = -k (X - x) alone (closed form from the reported state; a force left behind by
    # the deleted bias shows as a different F)
    KB = 0.001987191; PI = 3.14159265358979323846
    for k in range(4 if tier == "quick" else 30):
        ntsf = rng.choice([2, 3]); dt = rng.choice([0.5, 1.0]); tol = rng.choice([0.2, 0.5]); T = 300.0; tau = 200.0
        kext = KB * T / (tol * tol); mext = (KB * T * tau * tau) / (4.0 * PI * PI * tol * tol)
        kb = rng.choice([5.0, 20.0]); cb = rng.uniform(1.0, 2.0)
        conf = ("colvar {\n name e\n timeStepFactor %d\n width 0.5\n lowerBoundary -8.0\n upperBoundary 8.0\n extendedLagrangian on\n extendedFluctuation %s\n"
                " extendedTimeConstant %s\n extendedTemp %s\n extendedLangevinDamping 0.0\n outputVelocity on\n"
                " distanceZ {\n  main { atomNumbers 1 }\n  ref { dummyAtom (0.0, 0.0, 0.0) }\n  axis (0.0, 0.0, 1.0)\n }\n}\n") % (ntsf, num(tol), num(tau), num(T))
        bconf = "harmonic {\n name hb\n timeStepFactor %d\n colvars e\n forceConstant %s\n centers %s\n}\n" % (ntsf, num(kb), num(cb))
        lines = ["m.new 1", "M.noclock", "m.opt dt %s" % fbits(dt), cfg(conf), cfg(bconf), "O.objs cvs=e deps=hb:e"]
        x = rng.uniform(-0.5, 0.5)
        # (deleted right after a step at which the bias acted — its force is still in the variable's accumulator — or after a sleeping step)
        tdel = ntsf * rng.randint(2, 4) + (0 if k % 2 == 0 else rng.randint(1, ntsf - 1))
        nsteps = tdel + ntsf * rng.randint(3, 5) + 1
        rec = []
        for t in range(nsteps):
            x += rng.uniform(-0.02, 0.02)
            lines.append(pos(0, 0.0, 0.0, x)); lines.append("m.step"); st = len(lines)
            lines.append("m.cv e v ax"); rec.append((t, st, len(lines), x))
            if t == tdel:
                lines.append("o.delbias hb")
        cases.append({"lines": lines, "meta": {"extdel": {"rec": rec, "tdel": tdel, "n": ntsf, "h": dt * ntsf, "k": kext, "m": mext, "kb": kb, "cb": cb}}, "nontrivial": True})
    return cases


def extdel_oracle(e, out):
    n = e["n"]; h = e["h"]
    act = [(t, st, ln, x) for (t, st, ln, x) in e["rec"] if t % n == 0]
    checked = 0
    for (t0, s0, l0, x0), (t1, s1, l1, x1) in zip(act, act[1:]):
        rc = vals(out, s1, "rc")
        if rc is not None and rc[0] != 0:
            return ["step %d of the extended-Lagrangian variable ends with an error" % t1]
        X0 = vals(out, l0, "x"); V0 = vals(out, l0, "v"); X1 = vals(out, l1, "x"); V1 = vals(out, l1, "v")
        if None in (X0, V0, X1, V1):
            return ["the variable was not reported at steps %d / %d (deleting its bias must not switch it off: its own time-step factor wakes it)" % (t0, t1)]
        # (the variable reports the state left by the previous integration: the one of step t0 acts on it with the position of step t0)
        F = -e["k"] * (X0[0] - x0)
        if t0 <= e["tdel"]:
            F += -(e["kb"] / 0.25) * (X0[0] - e["cb"])        # forceConstant is given for a width (0.5) of the variable
        V = V0[0] + h * F / e["m"]; X = X0[0] + h * V
        tolx = 1e-9 * max(1.0, abs(X)); tolv = 1e-9 * max(abs(V), abs(V0[0]), h * abs(F) / e["m"], 1e-12) + 1e-15
        if abs(X1[0] - X) > tolx or abs(V1[0] - V) > tolv:
            when = "after its only bias was deleted at step %d" % e["tdel"] if t0 > e["tdel"] else "while its bias was alive"
            return ["extended coordinate at step %d (%s): %.12g with velocity %.6g, the closed form from the state of step %d gives %.12g and %.6g "
                    "(k=%.6g m=%.6g h=%.3g: the force on the extended coordinate is not the one of the objects that exist)" % (t1, when, X1[0], V1[0], t0, X, V, e["k"], e["m"], h)]
        checked += 1
    if checked < 3:
        return ["too few active steps were compared (%d)" % checked]
    return []


def distribution(cases):
    d = {"ops": 0, "deletions": 0, "survivors": 0}
    for c in cases:
        m = c["meta"]
        if "checks" not in m:
            continue
        d["ops"] += len(m["checks"]); d["deletions"] += m["deletions"]; d["survivors"] += len(m["survivors"])
    return d


def vals(out, ln, tag):
    v = out.get((ln, tag, 1))
    return None if v is None else [tok_val(t)[1] for t in v]


def oracle(case, out):
    m = case["meta"]; viol = []
    if "extdel" in m:
        return extdel_oracle(m["extdel"], out)
    # translator cross-check
    if "d.tables" in case["lines"][2:8]:
        got = sorted(tuple(tok_val(t)[1] for t in v) for (ln, tag, occ), v in out.items() if tag == "feat")
        want = sorted(expected_tables())
        if got and got != want:
            viol.append("feature tables regenerated from the source differ from the tables of the running library")
    for ln in m["checks"] + [m["marks"]["old"][-1], m["marks"]["new"][-1]]:
        nb = vals(out, ln, "nbad")
        if nb is None:
            return viol + ["dependency graph could not be inspected"]
        nab = vals(out, ln, "natombad")
        if nab and nab[0] != 0:
            viol.append("after operation at line %d the engine's atom reference counts do not match the atom-group memberships of the live objects: %s" % (ln, out.get((ln, "atombad", 1))))
            return viol
        if nb[0] != 0:
            bad = out.get((ln, "bad", 1))
            viol.append("after operation at line %d the dependency graph is inconsistent: %s" % (ln, " ".join(bad or [])[:300]))
            return viol
    # identity on outputs
    no, nn = m["marks"]["old"], m["marks"]["new"]
    for s in range(3):
        for which, mk in (("after the define/delete sequence", no), ("in the fresh instance", nn)):
            rc = vals(out, mk[s], "rc")
            if rc is not None and rc[0] != 0:
                viol.append("step %d %s ends with an error (return code %r)" % (s, which, rc))
                return viol
    nnames = len(m["cvnames"])
    for s in range(3):
        eo = vals(out, no[s], "energy"); en = vals(out, nn[s], "energy")
        if eo is None or en is None:
            return viol + ["missing step output"]
        if abs(eo[0] - en[0]) > 1e-9 * max(1.0, abs(en[0])):
            viol.append("step %d after the define/delete sequence: energy %r, a fresh instance with only the survivors gives %r" % (s, eo[0], en[0]))
            return viol
        for a in range(NATOMS):
            fo = vals(out, no[s] + 1, "f%d" % a); fn = vals(out, nn[s] + 1, "f%d" % a)
            if fo is None or fn is None or any(abs(x - y) > 1e-9 * max(1.0, abs(y)) for x, y in zip(fo, fn)):
                viol.append("step %d: force on atom %d is %r after the define/delete sequence, %r in a fresh instance with only the survivors" % (s, a, fo, fn))
                return viol
        for q in range(nnames):
            xo = vals(out, no[s] + 2 + q, "x"); xn = vals(out, nn[s] + 2 + q, "x")
            if xo != xn and (xo is None or xn is None or any(isinstance(x, float) and abs(x - y) > 1e-9 * max(1.0, abs(y)) for x, y in zip(xo, xn))):
                # frozen value over the three steps = the variable is not being computed any more
                olds = [vals(out, no[s2] + 2 + q, "x") for s2 in range(3)]
                frozen = olds[0] == olds[1] == olds[2]
                sig = "variable left inactive after its last bias was deleted" if (m["cvnames"][q] in m.get("orphaned", []) or (frozen and m["deletions"] > 0)) else None
                if m["cvnames"][q] in m.get("tsf_vars", []):
                    sig = None          # a variable with its own time-step factor is woken and put to sleep by the module at every step: the listed finding does not reach it
                viol.append((sig, "step %d: variable %s has value %r after the define/delete sequence, %r in an instance that only ever had the survivors" % (s, m["cvnames"][q], xo, xn)))
                return viol
    # atoms no longer used are released: same reference counts as the fresh instance
    ao = vals(out, no[-1], "atoms") or []; an = vals(out, nn[-1], "atoms") or []
    def live(l):
        return sorted((l[i], l[i + 1]) for i in range(0, len(l) - 1, 2) if l[i + 1] > 0)
    if live(ao) != live(an):
        viol.append("atoms still requested after the define/delete sequence %r, a fresh instance with only the survivors requests %r" % (live(ao), live(an)))
    return viol


def expected_tables():
    """the regenerated Lean tables in the tuple format of d.tables"""
    import re
    txt = open(os.path.join(cvbuild.LEAN, "CvModel", "Gen", "Deps.lean")).read()
    rows = []
    for ci, cls in enumerate(("bias", "colvar", "cvc", "ag")):
        m = re.search(r"def %sFeatures : List FeatureDecl := \[(.*?)\n\]" % cls, txt, flags=re.S)
        for fi, fm in enumerate(re.finditer(r"\{ name := \"[^\"]*\", ftype := (\d+), self := \[([^\]]*)\], alt := \[(.*?)\], children := \[([^\]]*)\], excl := \[([^\]]*)\] \}", m.group(1))):
            def il(s):
                return [int(x) for x in s.replace(" ", "").split(",") if x]
            selfl = il(fm.group(2)); alts = [il(a) for a in re.findall(r"\[([^\]]*)\]", fm.group(3))]
            ch = il(fm.group(4)); ex = il(fm.group(5))
            row = [ci, fi, int(fm.group(1)), len(selfl)] + selfl + [len(alts)]
            for a in alts:
                row += [len(a)] + a
            row += [len(ch)] + ch + [len(ex)] + ex
            rows.append(tuple(row))
    return rows


def extra(rep, tier, rng):
    """graph correspondence: enable/disable on snapshots of the real graph replayed through the Lean model"""
    exe = cvbuild.build_harness("rel")
    work = os.path.join(cvbuild.CACHE, "c13-%d" % os.getpid())
    os.makedirs(work, exist_ok=True)
    nconf = 6 if tier == "quick" else 60
    nops = 12 if tier == "quick" else 40
    total = 0; mism = 0; samples = []
    for k in range(nconf):
        r2 = rng.fork()
        L = ["m.new %d" % NATOMS]
        names = {}; kinds = {}
        for i in range(r2.randint(1, 3)):
            conf, kind = cv_conf(r2, "v%d" % i); L.append(cfg(conf)); names["v%d" % i] = conf; kinds["v%d" % i] = kind
        for i in range(r2.randint(1, 2)):
            use = r2.shuffle(sorted(names))[:r2.randint(1, min(2, len(names)))]
            conf, kind = bias_conf(r2, "b%d" % i, use, kinds); L.append(cfg(conf))
        L += step_lines(*traj(r2, 1)[0]) + ["m.step", "d.dump"]
        # first pass: learn the graph size
        f1 = os.path.join(work, "p1.txt"); open(f1, "w").write("\n".join(L) + "\n")
        o1 = subprocess.run([exe, f1], stdout=subprocess.PIPE, stderr=subprocess.DEVNULL, text=True).stdout
        po, _ = cvlib.parse_out(o1)
        dl = len(L)
        nobj = po.get((dl, "nobj", 1))
        if not nobj:
            continue
        nobj = int(nobj[0][1:])
        objs = [po[(dl, "obj", i + 1)] for i in range(nobj)]
        ops = []
        # atom-group features that stand for data built while the group is parsed (a fitting group, an index of the engine's
        # group table): the library switches them on only together with that data
        import re as _re
        agtxt = open(os.path.join(cvbuild.LEAN, "CvModel", "Gen", "Deps.lean")).read()
        agm = _re.search(r"def agFeatures : List FeatureDecl := \[(.*?)\n\]", agtxt, flags=_re.S)
        agnames = _re.findall(r'name := "([^"]*)"', agm.group(1)) if agm else []
        tied = set(i for i, nm in enumerate(agnames) if nm in ("f_ag_fitting_group", "f_ag_scalable", "f_ag_scalable_com"))
        for j in range(nops):
            oi = r2.randint(0, nobj - 1)
            nf = len_feats(objs[oi])
            cls = int(objs[oi][0][1:])
            op = "d.enable" if r2.rand() < 0.55 else "d.disable"
            fi = r2.randint(0, nf - 1)
            if op == "d.enable" and cls == 3 and fi in tied:
                op = "d.disable"      # (switching one of those on from outside is not a call the library can make)
            ops.append((op, oi, fi))
        L2 = L + ["%s %d %d" % o for o in ops]
        f2 = os.path.join(work, "p2.txt"); open(f2, "w").write("\n".join(L2) + "\n")
        r2_ = subprocess.run([exe, f2], stdout=subprocess.PIPE, stderr=subprocess.DEVNULL, text=True)
        o2 = r2_.stdout
        p2, _ = cvlib.parse_out(o2)
        if r2_.returncode != 0:
            done = max([l for (l, tag, occ) in p2 if tag == "nobj"] + [dl]) - dl
            rep.violation("the library process died (status %d) while enabling / disabling features of live objects, at operation %d: %s %d %d"
                          % ((r2_.returncode, done + 1) + ops[min(done, len(ops) - 1)]), "\n".join(L2[:dl + done + 1]) + "\n",
                          "deps_crash_%d" % k, found_input=True)
            continue
        # model replay: each op applied to the snapshot the implementation had before it
        ML = []
        snaps = []
        for j, (op, oi, fi) in enumerate(ops):
            before_ln = dl + j
            n_b = int(p2[(before_ln, "nobj", 1)][0][1:])
            flat = []
            for i in range(n_b):
                flat += [t[1:] for t in p2[(before_ln, "obj", i + 1)]]
            ML.append("dm.apply %s %d %d %d %s" % ("enable" if op == "d.enable" else "disable", oi, fi, n_b, " ".join(flat)))
        fm = os.path.join(work, "m.txt"); open(fm, "w").write("\n".join(ML) + "\n")
        mrc, mout, merr = cvlib.run_model(fm)
        pm, _ = cvlib.parse_out(mout)
        for j, (op, oi, fi) in enumerate(ops):
            total += 1
            after_ln = dl + j + 1
            rc_i = p2.get((after_ln, "rc", 1)); rc_m = pm.get((j + 1, "rc", 1))
            n_a = int(p2[(after_ln, "nobj", 1)][0][1:])
            impl_objs = [p2[(after_ln, "obj", i + 1)] for i in range(n_a)]
            model_objs = [pm.get((j + 1, "obj", i + 1)) for i in range(n_a)]
            if len(samples) < 3:
                samples.append({"op": op, "object": oi, "feature": fi, "rc": rc_i})
            if rc_i != rc_m or impl_objs != model_objs:
                mism += 1
                diff = next((i for i in range(n_a) if impl_objs[i] != model_objs[i]), None)
                detail = ""
                if diff is not None and model_objs[diff] is not None:
                    a, b = impl_objs[diff], model_objs[diff]
                    pos_ = next((q for q in range(min(len(a), len(b))) if a[q] != b[q]), min(len(a), len(b)))
                    detail = "; object %d token %d: library %s, model %s" % (diff, pos_, " ".join(a[max(0, pos_ - 2):pos_ + 3]), " ".join(b[max(0, pos_ - 2):pos_ + 3]))
                rep.violation("dependency engine and model disagree on %s object %d feature %d (rc %s vs %s, first differing object %s%s)" % (op, oi, fi, rc_i, rc_m, diff, detail),
                              "#! correspondence CvModel/Deps.lean <-> colvardeps broken: %s %d %d\n" % (op, oi, fi) + "\n".join(L2[:dl + j + 1]) + "\n",
                              "deps_corr_%d_%d" % (k, j), found_input=False)
                break
    rep.extra["graph_ops_replayed"] = total
    rep.extra["graph_op_mismatches"] = mism
    rep.extra["graph_samples"] = samples
    rep.cov["evaluations"] += total
    import shutil
    shutil.rmtree(work, ignore_errors=True)


def len_feats(objtoks):
    v = [int(t[1:]) for t in objtoks]
    nch = v[1]
    return v[2 + nch]
