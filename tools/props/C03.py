"""C03 — a run resumed from a saved state is indistinguishable from an uninterrupted run."""
import math, os, re
import cvbuild
from cvlib import fbits, tok_val, esc
from cvscen import inj_cv, cfg, pos, tf, num

RULE = ("for each bias family (harmonic fixed / moving centres continuous and staged / changing force constant with TI, harmonicWalls, "
        "linear, ABF 1-D and 2-D with late and same-step total forces, eABF with CZAR, metadynamics with grids / without / keepHills / "
        "well-tempered / expanding grids, OPES, ABMD, ALB, histogram, histogramRestraint, extended-Lagrangian variable under a restraint): "
        "an uninterrupted run of N steps and the same run stopped at a step K (first, last, on and off every bias's own schedule, random), "
        "saved in text or binary form and resumed in a fresh instance; values, energies, atomic forces and total/applied variable "
        "forces of every step after K, the accumulated bias data and the final state are compared; the state written immediately "
        "after loading is compared with the one loaded; ABF/harmonic/histogram runs are also predicted by the model; "
        "non-trivial = the bias accumulated data before and after K; distinct by op text")
ASSUMPTIONS = ["the engine repeats the stop step as step 0 of the resumed run with the same coordinates (NAMD/LAMMPS/GROMACS convention)",
               "Langevin noise of extended coordinates is not part of the state, so friction is zero in these runs",
               "text states carry 14 significant digits: quantities are compared at 1e-9 relative"]
COMPARE = {}
NAT = 3


def families():
    x0 = inj_cv("x0", 0, -3.0, 3.0, 0.5)
    x1 = inj_cv("x1", 1, -2.0, 2.0, 0.5)
    xp = inj_cv("x0", 0, -3.0, 3.0, 0.5, 6.0, 0.0)
    xe = ("colvar {\n name x0\n width 0.5\n lowerBoundary -3.0\n upperBoundary 3.0\n extendedLagrangian on\n extendedFluctuation 0.2\n"
          " extendedTimeConstant 40.0\n extendedTemp 300.0\n extendedLangevinDamping 0.0\n outputEnergy on\n"
          " distanceZ {\n  main { atomNumbers 1 }\n  ref { dummyAtom (0.0, 0.0, 0.0) }\n  axis (0.0, 0.0, 1.0)\n  oneSiteTotalForce on\n }\n}\n")
    F = {}
    F["harmonic"] = (x0, "harmonic {\n name b\n colvars x0\n centers 0.4\n forceConstant 3.0\n}\n", {})
    F["harmonic_moving"] = (x0, "harmonic {\n name b\n colvars x0\n centers -1.0\n targetCenters 1.5\n targetNumSteps 14\n forceConstant 3.0\n outputAccumulatedWork on\n outputCenters on\n}\n", {"dump": "r.dump b"})
    F["harmonic_moving_periodic"] = (xp, "harmonic {\n name b\n colvars x0\n centers 2.0\n targetCenters 4.5\n targetNumSteps 14\n forceConstant 3.0\n outputAccumulatedWork on\n}\n", {"dump": "r.dump b"})
    F["harmonic_staged"] = (x0, "harmonic {\n name b\n colvars x0\n centers -1.0\n targetCenters 1.0\n targetNumSteps 4\n targetNumStages 4\n forceConstant 3.0\n}\n", {"dump": "r.dump b"})
    F["harmonic_k"] = (x0, "harmonic {\n name b\n colvars x0\n centers 0.2\n forceConstant 1.0\n targetForceConstant 5.0\n targetNumSteps 16\n outputAccumulatedWork on\n}\n", {"dump": "r.dump b"})
    F["harmonic_k_staged"] = (x0, "harmonic {\n name b\n colvars x0\n centers 0.2\n forceConstant 1.0\n targetForceConstant 5.0\n targetNumSteps 5\n targetNumStages 3\n targetEquilSteps 2\n}\n", {"dump": "r.dump b"})
    # thermodynamic-integration samples collected by a restraint (count and total-force grids in the state)
    F["harmonic_ti"] = (x0, "harmonic {\n name b\n colvars x0\n centers 0.4\n forceConstant 3.0\n writeTISamples on\n}\n", {"tf": True})
    F["walls"] = (x0, "harmonicWalls {\n name b\n colvars x0\n lowerWalls -0.5\n upperWalls 0.7\n forceConstant 4.0\n}\n", {})
    F["walls_k"] = (x0, "harmonicWalls {\n name b\n colvars x0\n lowerWalls -0.5\n upperWalls 0.7\n forceConstant 4.0\n targetForceConstant 0.5\n targetNumSteps 12\n outputAccumulatedWork on\n}\n", {"dump": "r.dump b"})
    F["linear"] = (x0, "linear {\n name b\n colvars x0\n centers 0.1\n forceConstant 2.0\n targetForceConstant 4.0\n targetNumSteps 10\n}\n", {})
    F["abf1"] = (x0, "abf {\n name b\n colvars x0\n fullSamples 3\n integrate off\n}\n", {"dump": "a.dump b", "tf": True, "model": "abf1"})
    F["abf1_same"] = (x0, "abf {\n name b\n colvars x0\n fullSamples 3\n integrate off\n}\n", {"dump": "a.dump b", "tf": True, "same": True, "model": "abf1"})
    F["abf1_hist"] = (x0, "abf {\n name b\n colvars x0\n fullSamples 2\n integrate off\n}\nharmonic {\n name h\n colvars x0\n centers 0.3\n forceConstant 1.5\n}\nhistogram {\n name hs\n colvars x0\n}\n",
                      {"dump": "a.dump b", "tf": True, "model": "abf1_hist"})
    F["abf1_int"] = (x0, "abf {\n name b\n colvars x0\n fullSamples 3\n}\n", {"dump": "a.dump b", "tf": True})
    F["abf2"] = (x0 + x1, "abf {\n name b\n colvars x0 x1\n fullSamples 2\n}\n", {"dump": "a.dump b", "tf": True, "ncv": 2})
    F["eabf"] = (xe, "abf {\n name b\n colvars x0\n fullSamples 2\n}\n", {"dump": "a.dump b", "tf": True, "ext": True})
    F["ext_harmonic"] = (xe, "harmonic {\n name b\n colvars x0\n centers 0.3\n forceConstant 2.0\n}\n", {"ext": True})
    F["meta_grid"] = (x0, "metadynamics {\n name b\n colvars x0\n hillWeight 0.2\n hillWidth 2.0\n newHillFrequency 3\n gridsUpdateFrequency 6\n}\n", {"dump": "mt.dump b", "model": "meta_grid"})
    F["meta_nogrid"] = (x0, "metadynamics {\n name b\n colvars x0\n hillWeight 0.2\n hillWidth 2.0\n newHillFrequency 3\n useGrids off\n}\n", {"dump": "mt.dump b", "model": "meta_nogrid"})
    F["meta_keep"] = (x0, "metadynamics {\n name b\n colvars x0\n hillWeight 0.2\n hillWidth 2.0\n newHillFrequency 2\n gridsUpdateFrequency 4\n keepHills on\n}\n", {"dump": "mt.dump b", "model": "meta_keep"})
    F["meta_wt"] = (x0, "metadynamics {\n name b\n colvars x0\n hillWeight 0.2\n hillWidth 2.0\n newHillFrequency 2\n wellTempered on\n biasTemperature 2000.0\n}\n", {"dump": "mt.dump b", "model": "meta_wt"})
    F["meta_expand"] = (inj_cv("x0", 0, -1.0, 1.0, 0.5, extra="  expandBoundaries on\n"),
                        "metadynamics {\n name b\n colvars x0\n hillWeight 0.2\n hillWidth 2.0\n newHillFrequency 2\n gridsUpdateFrequency 4\n}\n", {"dump": "mt.dump b", "wide": True})
    F["meta_2d"] = (x0 + x1, "metadynamics {\n name b\n colvars x0 x1\n hillWeight 0.2\n hillWidth 2.0\n newHillFrequency 3\n}\n", {"dump": "mt.dump b", "ncv": 2})
    F["opes"] = (x0, "opes_metad {\n name b\n colvars x0\n newHillFrequency 3\n barrier 5.0\n gaussianSigma 0.4\n}\n", {})
    F["opes_adaptive"] = (x0, "opes_metad {\n name b\n colvars x0\n newHillFrequency 2\n barrier 5.0\n adaptiveSigma on\n adaptiveSigmaStride 4\n}\n", {})
    F["abmd"] = (x0, "abmd {\n name b\n colvars x0\n stoppingValue 2.0\n forceConstant 3.0\n}\n", {})
    F["abmd_down"] = (x0, "abmd {\n name b\n colvars x0\n decreasing on\n stoppingValue -2.0\n forceConstant 3.0\n}\n", {})
    F["alb"] = (x0, "alb {\n name b\n colvars x0\n centers 0.5\n updateFrequency 4\n forceRange 1.0\n rateMax 1.0\n}\n", {})
    F["histogram"] = (x0 + x1, "histogram {\n name b\n colvars x0 x1\n}\n", {"dump": "h.dump b", "ncv": 2})
    F["histogram_restraint"] = (x0, "histogramRestraint {\n name b\n colvars x0\n lowerBoundary -2.0\n upperBoundary 2.0\n width 0.5\n refHistogram 0.0 0.1 0.2 0.4 0.6 0.4 0.2 0.1\n forceConstant 2.0\n}\n", {})
    return F


def model_lines(fam):
    """declarations for the Lean driver (value-injected variables and the modelled biases)"""
    if fam == "abf1":
        return ["M.cv x0 0 %s %s %s 0" % (fbits(0.5), fbits(0.0), fbits(0.0)),
                "M.abf b 1 x0 %s %s %s 3 1 1 1 0 0 0 %s" % (fbits(-3.0), fbits(3.0), fbits(0.5), fbits(1.0))]
    if fam == "abf1_hist":
        return ["M.cv x0 0 %s %s %s 0" % (fbits(0.5), fbits(0.0), fbits(0.0)),
                "M.abf b 1 x0 %s %s %s 2 1 1 1 0 0 0 %s" % (fbits(-3.0), fbits(3.0), fbits(0.5), fbits(1.0)),
                "M.harm h 1 x0 %s %s" % (fbits(1.5), fbits(0.3)),
                "M.hist hs 0 1 x0 %s %s %s" % (fbits(-3.0), fbits(3.0), fbits(0.5))]
    if fam in ("meta_grid", "meta_nogrid", "meta_keep", "meta_wt"):
        prm = {"meta_grid": (3, 1, 6, 0, 0), "meta_nogrid": (3, 0, 0, 0, 0), "meta_keep": (2, 1, 4, 1, 0), "meta_wt": (2, 1, 2, 0, 1)}[fam]
        freq, grids, gf, keep, wt = prm
        return ["M.cv x0 0 %s %s %s 0" % (fbits(0.5), fbits(0.0), fbits(0.0)),
                "M.meta b 1 x0 weight=%s freq=%d sigmas=%s hillwidth=%s grids=%d gridsfreq=%d keephills=%d wt=%d tkb=%s lo=%s hi=%s expand=0 gper=0" % (
                    fbits(0.2), freq, fbits(0.5), fbits(2.0), grids, gf, keep, wt, fbits(2000.0 * 0.001987191), fbits(-3.0), fbits(3.0))]
    return None


def traj(rng, nsteps, ncv, wide):
    xs = [rng.uniform(-0.8, 0.8) for _ in range(ncv)]
    out = []
    for s in range(nsteps):
        for i in range(ncv):
            r = rng.rand()
            if wide and r < 0.15:
                xs[i] = rng.uniform(-2.5, 2.5)
            elif r < 0.08:
                xs[i] = rng.uniform(-3.6, 3.6)       # excursion outside the grids
            else:
                xs[i] += rng.uniform(-0.35, 0.35)
        out.append((list(xs), [rng.uniform(-4, 4) for _ in range(ncv)]))
    return out


def setup(fam, conf, bias, opt, prefix):
    L = ["m.new %d" % NAT, "m.opt tfloop 1", "m.opt tf_same %d" % (1 if opt.get("same") else 0), "m.opt prefix %s" % prefix]
    ml = model_lines(opt.get("model"))
    if ml is None:
        L.append("M.noclock")
    L += [cfg(conf), cfg(bias)]
    if ml:
        L += ml
    return L


def step_ops(T, s, ncv, opt, probes, cont=False):
    L = []
    xs, fs = T[s]
    for i in range(ncv):
        L.append(pos(i, 0.1 * i, -0.2, xs[i]))
        L.append(tf(i, 0.3, 0.1, fs[i]))
    L.append("m.step")
    return L


UNROUND_KEYS = ("forceConstant", "stoppingValue", "centers", "targetCenters", "targetForceConstant", "lowerWalls", "upperWalls", "hillWeight",
                "barrier", "gaussianSigma", "forceRange", "rateMax", "biasTemperature")


def unround(text, rng):
    """the same configuration with parameter values that need all 17 digits (a state that carries them rounded changes the resumed run)"""
    out = []
    for line in text.split("\n"):
        t = line.split()
        if len(t) >= 2 and t[0] in UNROUND_KEYS:
            try:
                vals = [float(x) for x in t[1:]]
                line = " " + t[0] + " " + " ".join("%.17g" % (v * (1.0 + rng.uniform(1e-8, 9e-8)) + rng.uniform(1e-9, 9e-9)) for v in vals)
            except ValueError:
                pass
        out.append(line)
    return "\n".join(out)


def gen(rng, tier):
    fams = families()
    work = os.path.join(cvbuild.CACHE, "c03-scratch")
    os.makedirs(work, exist_ok=True)
    cases = []
    reps = 2 if tier == "quick" else 8          # (two passes: every family is stopped once early / late and once in mid-run, once in each state format)
    idx = 0
    for rep_ in range(reps):
        for fam, (conf, bias, opt) in sorted(fams.items()):
            ncv = opt.get("ncv", 1)
            N = rng.randint(14, 26)
            if rep_ == 0:
                K = rng.choice([0, 1, N - 1, rng.randint(2, N - 2)])
            else:
                K = rng.randint(0, N - 1)
            if rep_ % 4 == 1:
                K = 6 * rng.randint(0, (N - 1) // 6)          # on the schedules (multiples of 2, 3, 6)
            binfmt = ((idx + rep_) % 2 == 1) if len(fams) % 2 == 0 else (idx % 2 == 1)
            idx += 1
            if rep_ % 2 == 1 and not opt.get("model"):
                bias = unround(bias, rng)          # (the modelled families declare their parameters to the Lean driver as well: left as they are)
            T = traj(rng, N + 1, ncv, opt.get("wide"))
            pfx = os.path.join(work, "s%d" % idx)
            probe = ["m.forces"] + ["m.cv x%d ft fa" % i for i in range(ncv)] + ["m.bias b"]
            # uninterrupted
            L = setup(fam, conf, bias, opt, pfx + "u")
            cfgs = [i + 1 for i, l in enumerate(L) if l.startswith("m.cfg")]
            ulines = {}
            # (engines write restart files during a run: the uninterrupted run also writes a state at K)
            plain = {}
            if fam.startswith("meta") and rep_ % 2 == 0:
                # a run that writes no state at K: writing a state must not change the run
                for s in range(N + 1):
                    L += step_ops(T, s, ncv, opt, probe)
                    plain[s] = len(L)
                    L += probe
                L += setup(fam, conf, bias, opt, pfx + "u")
            for s in range(N + 1):
                L += step_ops(T, s, ncv, opt, probe)
                ulines[s] = len(L)
                L += probe
                if s == K:
                    L.append("m.savestr")
            if opt.get("dump"):
                L.append(opt["dump"])
            udump = len(L)
            L.append("m.savestr"); ufinal = len(L)
            # interrupted at K
            L += setup(fam, conf, bias, opt, pfx + "r")
            for s in range(K + 1):
                L += step_ops(T, s, ncv, opt, probe)
            L.append("m.savestr"); saved = len(L)
            L.append("m.save %s%s" % (pfx, " bin" if binfmt else ""))
            L += setup(fam, conf, bias, opt, pfx + "r")
            L.append("m.load %s" % pfx); loadl = len(L)
            L.append("m.savestr"); reloaded = len(L)
            rlines = {}
            L += step_ops(T, K, ncv, opt, probe)          # the stop step, repeated as step 0 of the new run
            rlines[K] = len(L)
            L += probe
            for s in range(K + 1, N + 1):
                L += step_ops(T, s, ncv, opt, probe)
                rlines[s] = len(L)
                L += probe
            if opt.get("dump"):
                L.append(opt["dump"])
            rdump = len(L)
            L.append("m.savestr"); rfinal = len(L)
            cases.append({"lines": L, "meta": {"family": fam, "N": N, "K": K, "binary": binfmt, "u": ulines, "r": rlines, "nprobe": len(probe),
                                                "udump": udump if opt.get("dump") else None, "rdump": rdump if opt.get("dump") else None,
                                                "cfgs": cfgs, "plain": plain, "ufinal": ufinal, "rfinal": rfinal, "saved": saved, "reloaded": reloaded, "load": loadl},
                          "nontrivial": 0 < K < N})
    return cases


def distribution(cases):
    d = {"binary": 0, "K_first": 0, "K_last": 0, "families": {}}
    for c in cases:
        m = c["meta"]
        if "family" not in m:
            continue
        d["families"][m["family"]] = d["families"].get(m["family"], 0) + 1
        d["binary"] += int(m["binary"]); d["K_first"] += int(m["K"] == 0); d["K_last"] += int(m["K"] == m["N"] - 1)
    return d


NUM = re.compile(r"[-+]?(?:\d+\.?\d*|\.\d+)(?:[eE][-+]?\d+)?|nan|inf")


def unesc(s):
    return s.replace("\\s", " ").replace("\\n", "\n").replace("\\t", "\t").replace("\\\\", "\\")


def state_diff(a, b, rel=1e-9, ab=1e-11):
    """first difference between two state strings, numbers compared with a tolerance"""
    ta, tb = a.split(), b.split()
    if len(ta) != len(tb):
        return "the states have %d and %d words" % (len(ta), len(tb))
    ctx = ""
    for i, (x, y) in enumerate(zip(ta, tb)):
        if x == y:
            if not NUM.fullmatch(x):
                ctx = x
            continue
        try:
            fx, fy = float(x), float(y)
        except ValueError:
            return "word %d after '%s': '%s' vs '%s'" % (i, ctx, x[:30], y[:30])
        if not (abs(fx - fy) <= ab + rel * max(abs(fx), abs(fy))):
            return "number %d after '%s': %r vs %r" % (i, ctx, fx, fy)
    return None


def lines_at(out, ln):
    return {(tag, occ): v for (l, tag, occ), v in out.items() if l == ln}


def cmp_lines(a, b, what, rel=1e-9, ab=1e-10):
    # log-derived items: the resumed instance has only the lines printed after the stop
    a = {k: v for k, v in a.items() if k[0] != "nti"}; b = {k: v for k, v in b.items() if k[0] != "nti"}
    if ("ti", 1) in a and ("ti", 1) in b:
        ta, tb = a[("ti", 1)], b[("ti", 1)]
        a = dict(a); b = dict(b)
        a[("ti", 1)] = ta[len(ta) - len(tb):] if len(tb) <= len(ta) else ta
    if set(a) != set(b):
        return "%s: different items reported (%r vs %r)" % (what, sorted(a)[:6], sorted(b)[:6])
    for k in sorted(a):
        va, vb = a[k], b[k]
        if len(va) != len(vb):
            return "%s: %s has %d values in the uninterrupted run and %d in the resumed one" % (what, k[0], len(va), len(vb))
        for i, (x, y) in enumerate(zip(va, vb)):
            kx, fx = tok_val(x); ky, fy = tok_val(y)
            if kx != ky:
                return "%s: %s[%d] %r vs %r" % (what, k[0], i, x, y)
            if kx == "f":
                if math.isnan(fx) and math.isnan(fy):
                    continue
                if not (abs(fx - fy) <= ab + rel * max(abs(fx), abs(fy))):
                    return "%s: %s[%d] is %r in the uninterrupted run and %r in the resumed one" % (what, k[0], i, fx, fy)
            elif fx != fy:
                return "%s: %s[%d] is %r in the uninterrupted run and %r in the resumed one" % (what, k[0], i, fx, fy)
    return None


def oracle(case, out):
    m = case["meta"]
    if "family" not in m:
        return []
    viol = []
    fam = m["family"]
    u = {int(k): v for k, v in m["u"].items()}; r = {int(k): v for k, v in m["r"].items()}
    # (guard against vacuous cases: the configurations of a family must be accepted)
    for ln in (m.get("cfgs") or []):
        if out.get((ln, "rc", 1)) != ["i0"]:
            return ["generator error: a configuration of family %s is rejected by the library (op line %d)" % (fam, ln)]
    rc = out.get((m["load"], "rc", 1))
    if rc != ["i0"]:
        return [("load failed: " + fam, "family %s: the state saved at step %d (%s) could not be loaded" % (fam, m["K"], "binary" if m["binary"] else "text"))]
    # the state written right after loading is the state that was loaded
    sa = out.get((m["saved"], "state", 1)); sb = out.get((m["reloaded"], "state", 1))
    if sa and sb:
        d = state_diff(unesc(sa[0][1:]), unesc(sb[0][1:]))
        if d:
            viol.append((fam + ": save after load differs", "family %s (%s state, stop at step %d): the state written immediately after loading differs from the one loaded: %s"
                         % (fam, "binary" if m["binary"] else "text", m["K"], d)))
    # writing a state in mid-run does not change the run
    if m.get("plain"):
        pl = {int(k): v for k, v in m["plain"].items()}
        for s in range(m["K"] + 1, m["N"] + 1):
            for j in range(m["nprobe"] + 1):
                d = cmp_lines(lines_at(out, pl[s] + j), lines_at(out, u[s] + j), "step %d" % s)
                if d:
                    viol.append(("writing a state changes the run: metadynamics with grids", "family %s: a run that writes a state at step %d differs afterwards from the same run "
                                 "that writes none: %s" % (fam, m["K"], d.replace("uninterrupted run", "run without the write").replace("resumed one", "run with it"))))
                    break
            else:
                continue
            break
    # every step after K
    for s in range(m["K"] + 1, m["N"] + 1):
        for j in range(m["nprobe"] + 1):
            a = lines_at(out, u[s] + j); b = lines_at(out, r[s] + j)
            d = cmp_lines(a, b, "step %d" % s)
            if d:
                viol.append((fam + ": resumed run differs", "family %s (%s state, stop at step %d of %d): %s" % (fam, "binary" if m["binary"] else "text", m["K"], m["N"], d)))
                return viol
    if m["udump"]:
        d = cmp_lines(lines_at(out, m["udump"]), lines_at(out, m["rdump"]), "accumulated bias data at the end")
        if d:
            viol.append((fam + ": bias data differ", "family %s (%s state, stop at step %d of %d): %s" % (fam, "binary" if m["binary"] else "text", m["K"], m["N"], d)))
            return viol
    fa = out.get((m["ufinal"], "state", 1)); fb = out.get((m["rfinal"], "state", 1))
    if fa and fb:
        d = state_diff(unesc(fa[0][1:]), unesc(fb[0][1:]))
        if d:
            viol.append((fam + ": final state differs", "family %s (%s state, stop at step %d of %d): final states differ: %s" % (fam, "binary" if m["binary"] else "text", m["K"], m["N"], d)))
    return viol
