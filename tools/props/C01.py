"""C01 — applied atomic forces are the exact negative gradient of the reported energy."""
import math
import cvlib
from cvlib import fbits, tok_val, esc
from cvscen import cfg, pos, tf, num
from cvcomp import COMPONENTS, NAT, grp, refpos, vec, PERIODIC

RULE = ("one variable made of 1-2 components drawn from every scalar / vector component type of this build (distance family, angles, "
        "dihedral, polar angles, dipole, gyration / inertia, coordination numbers incl. anisotropic, group and self, hBond, rmsd, "
        "eigenvector with explicit fit gradients, orientation family, Euler angles, cartesian) with componentCoeff / componentExp, "
        "random atom groups of 1-8 atoms out of 14 with random masses and charges, group options (centerToReference / "
        "rotateToReference with refPositions, separate fittingGroup, dummy atoms), orthorhombic cell on/off, under a harmonic, "
        "harmonicWalls, linear, histogramRestraint or (after a few depositions) grid-less metadynamics bias; the energy reported "
        "to the engine is differentiated numerically with respect to every atomic coordinate (central differences on repeated "
        "evaluations of the same step) and compared with the force handed to the engine; atoms outside all groups must get no "
        "force; the closed-form gradients of the modelled components are compared with the model; non-trivial = non-zero force; "
        "distinct by op text")
ASSUMPTIONS = ["numerical differentiation: step 1e-4, agreement required to 2e-5 relative / 2e-6 absolute; geometries closer than 0.05 to a documented singularity are not generated",
               "floating point is not modelled"]
H = 1.0e-4
COMPARE = {"tol_by_tag": {}}


def positions(rng):
    # spread atoms so that groups rarely coincide
    return [[rng.uniform(-3.0, 3.0), rng.uniform(-3.0, 3.0), rng.uniform(-3.0, 3.0)] for _ in range(NAT)]


def variable(rng, P, name="q", force_kinds=None, allow_two=True):
    kinds = sorted(COMPONENTS)
    k1 = rng.choice(force_kinds or kinds)
    vtype, f = COMPONENTS[k1]
    comps = [k1]
    text = "colvar {\n name %s\n" % name
    groups = []
    two = allow_two and vtype == "scalar" and rng.rand() < 0.35
    klist = [k1]
    if two:
        k2 = rng.choice([k for k in kinds if COMPONENTS[k][0] == "scalar" and k != "eigenvector"])
        klist.append(k2)
    for k in klist:
        extra = ""
        if vtype == "scalar" and rng.rand() < 0.5:
            extra += "  componentCoeff %s\n" % num(rng.choice([-1.0, 0.5, 2.0]))
        if vtype == "scalar" and rng.rand() < 0.3:
            extra += "  componentExp %d\n" % rng.choice([2, 3, -1])
        if k == "eigenvector":
            extra += ""      # explicit fit gradients are part of the component's own defaults
        t, g = COMPONENTS[k][1](rng, P, extra)
        text += " " + t.replace("\n", "\n ") + "}\n"
        groups += g
    text += "}\n"
    return text, vtype, klist, groups


FORCED_OPT = {"fittingGroup": 0.1, "center": 0.3, "both": 0.3, "rotate": 0.3, "dummyAtom": 0.6}


def add_group_options(rng, text, P, force=None):
    """centerToReference / rotateToReference (+ fittingGroup) or a dummy atom on one group of a distance-like component;
    `force` asks for one particular option (the caller retries until the component accepts it)"""
    opt = rng.rand() if force is None else FORCED_OPT[force]
    if opt < 0.25 and "distance {" in text and "group1 {" in text:
        # a separate fitting group defines the frame in which group1 is seen
        fit = sorted(rng.sample(range(NAT), 5))
        R = [[x + rng.uniform(-0.3, 0.3) for x in P[i]] for i in range(NAT)]
        o = ("   centerToReference on\n   rotateToReference on\n   enableFitGradients on\n   fittingGroup {\n    atomNumbers %s\n   }\n   refPositions %s\n"
             % (" ".join(str(a + 1) for a in fit), refpos(R, fit)))
        text = text.replace("  group1 {\n", "  group1 {\n" + o, 1)
        return text, "fittingGroup", fit
    if opt < 0.55 and ("  group1 {\n" in text or "  atoms {\n" in text) and "refPositions" not in text:
        # the group is only translated to the reference (no rotation), or translated and rotated, by its own fit
        key = "  group1 {\n" if "  group1 {\n" in text else "  atoms {\n"
        a = text.index(key); b = text.index("\n", a + len(key))
        atoms = [int(x) - 1 for x in text[a + len(key):b].split()[1:]]
        if len(atoms) >= 3 or opt < 0.47:
            R = [[x + rng.uniform(-0.3, 0.3) for x in P[i]] for i in range(NAT)]
            mode = (force if force in ("center", "both", "rotate") else rng.choice(["center", "both", "rotate"])) if len(atoms) >= 3 else "center"
            o = "   centerToReference %s\n   rotateToReference %s\n   enableFitGradients on\n   refPositions %s\n" % (
                "off" if mode == "rotate" else "on", "off" if mode == "center" else "on", refpos(R, atoms))
            text = text.replace(key + text[a + len(key):b + 1], key + text[a + len(key):b + 1] + o, 1)
            return text, {"center": "fit_center_only", "both": "fit_rotate", "rotate": "fit_rotate_only"}[mode], []
    if opt < 0.7 and "  ref {\n" in text:
        text_new = text
        a = text.index("  ref {\n"); b = text.index("  }\n", a)
        text_new = text[:a] + "  ref {\n   dummyAtom %s\n  }\n" % vec([rng.uniform(-1, 1) for _ in range(3)]) + text[b + 4:]
        return text_new, "dummyAtom", []
    return text, "none", []


def bias_for(rng, vtype, kinds, name="q"):
    per = kinds[0] in PERIODIC and len(kinds) == 1
    if vtype == "scalar":
        r = rng.rand()
        c = rng.uniform(-1, 1)
        if r < 0.35:
            return "harmonic {\n name b\n colvars %s\n centers %s\n forceConstant %s\n}\n" % (name, num(c), num(rng.uniform(0.5, 3.0))), "harmonic"
        if r < 0.5:
            return "linear {\n name b\n colvars %s\n centers %s\n forceConstant %s\n}\n" % (name, num(c), num(rng.uniform(0.5, 3.0))), "linear"
        if r < 0.7:
            return ("harmonicWalls {\n name b\n colvars %s\n lowerWalls %s\n upperWalls %s\n forceConstant %s\n}\n"
                    % (name, num(50.0), num(-50.0 if False else 60.0), num(2.0))) if False else \
                   ("harmonicWalls {\n name b\n colvars %s\n upperWalls %s\n forceConstant %s\n}\n" % (name, num(-40.0 if not per else -170.0), num(0.7))), "walls"
        if r < 0.85:
            # hills wide enough for central differences with step 1e-4 (degrees for the angular components)
            deg = any(k in ("angle", "dihedral", "dipoleAngle", "polarTheta", "polarPhi", "orientationAngle", "spinAngle", "eulerPhi", "eulerTheta", "eulerPsi") for k in kinds)
            return "metadynamics {\n name b\n colvars %s\n hillWeight 0.3\n gaussianSigmas %s\n newHillFrequency 1\n useGrids off\n}\n" % (name, "25.0" if deg else "2.5"), "metadynamics"
        return "harmonic {\n name b\n colvars %s\n centers %s\n forceConstant %s\n}\nlinear {\n name b2\n colvars %s\n centers 0.0\n forceConstant 0.7\n}\n" % (
            name, num(c), num(1.5), name), "harmonic+linear"
    if vtype == "vector3":
        return "harmonic {\n name b\n colvars %s\n centers (0.5, -0.3, 0.2)\n forceConstant 1.5\n}\n" % name, "harmonic"
    if vtype == "unit3":
        return "harmonic {\n name b\n colvars %s\n centers (0.6, 0.0, 0.8)\n forceConstant 1.5\n}\n" % name, "harmonic"
    if vtype == "quaternion":
        return "harmonic {\n name b\n colvars %s\n centers (0.8, 0.2, -0.4, 0.4)\n forceConstant 1.5\n}\n" % name, "harmonic"
    return None, None


MODELLED = ["distance", "distanceZ", "distanceZ_ref2", "distanceXY", "gyration", "angle", "inertia", "inertiaZ", "distanceInv", "coordNum"]


def modelled_case(rng, kind, with_tf=False):
    """a single component of a kind the Lean model covers: value, atomic gradients (and total force) are predicted"""
    P = positions(rng)
    pool = list(range(NAT)); rng.shuffle(pool)
    ng = {"distance": 2, "distanceZ": 2, "distanceZ_ref2": 3, "distanceXY": 2, "gyration": 1, "angle": 3, "inertia": 1, "inertiaZ": 1,
          "distanceInv": 2, "coordNum": 2}[kind]
    groups = []
    for i in range(ng):
        k = rng.randint(3, 6) if kind in ("gyration", "inertia", "inertiaZ") else rng.randint(1, 3)
        groups.append(sorted(pool[:k])); pool = pool[k:]
    axis = [rng.uniform(-1, 1) for _ in range(3)]
    coeff = rng.choice([1.0, -1.0, 0.5, 2.0]); expn = rng.choice([1, 1, 2, 3])
    one = with_tf and kind in ("distance", "distanceZ", "distanceXY") and rng.rand() < 0.4
    if with_tf:
        expn = 1; coeff = rng.choice([1.0, -1.0])
    names = {"distance": ("group1", "group2"), "distanceZ": ("main", "ref"), "distanceZ_ref2": ("main", "ref", "ref2"),
             "distanceXY": ("main", "ref"), "gyration": ("atoms",), "angle": ("group1", "group2", "group3"), "inertia": ("atoms",),
             "inertiaZ": ("atoms",), "distanceInv": ("group1", "group2"), "coordNum": ("group1", "group2")}[kind]
    key = {"distanceZ_ref2": "distanceZ"}.get(kind, kind)
    t = "colvar {\n name q\n%s %s {\n" % (" outputTotalForce on\n" if with_tf else "", key)
    for nm, g in zip(names, groups):
        t += " " + grp(nm, g)
    if kind in ("distanceZ", "distanceXY", "inertiaZ"):
        t += "   axis %s\n" % vec(axis)
    iexp = rng.choice([2, 4, 6]); r0 = rng.uniform(2.5, 5.0); en = rng.choice([2, 4, 6, 8]); ed = en + 2 * rng.randint(1, en + 2); tol = rng.choice([0.0, 0.0, 0.001, 0.02])
    extra_def = ""
    if kind == "distanceInv":
        t += "   exponent %d\n" % iexp; extra_def = " exp=%d" % iexp
    if kind == "coordNum":
        t += "   cutoff %s\n   expNumer %d\n   expDenom %d\n" % (num(r0), en, ed)
        if tol > 0:
            t += "   tolerance %s\n   pairListFrequency 1\n" % num(tol)
        extra_def = " r0=%s en=%d ed=%d tol=%s" % (fbits(float(num(r0))), en, ed, fbits(float(num(tol))))
    if one:
        t += "   oneSiteTotalForce on\n"
    t += "   componentCoeff %s\n   componentExp %d\n }\n}\n" % (num(coeff), expn)
    L = ["m.new %d" % NAT, "m.opt tf_same 1", "m.opt tfloop 0", "m.opt temp %s" % fbits(0.0)]
    masses = [rng.choice([1.0, 12.0, 14.0, 16.0, 32.0]) for _ in range(NAT)]
    for a in range(NAT):
        L.append("m.mass %d %s" % (a, fbits(masses[a])))
    L.append(cfg(t)); cl = len(L)
    L.append("G.def q %s c=%s n=%d one=%d axis=%s%s %s" % (kind, fbits(coeff), expn, int(one), ",".join(fbits(x) for x in axis), extra_def,
                                                         " ".join("g=" + ",".join(map(str, g)) for g in groups)))
    L.append("g.collect q")
    for s_ in range(3):
        P = [[x + rng.uniform(-0.3, 0.3) for x in p] for p in P]
        for a in range(NAT):
            L.append(pos(a, *P[a])); L.append(tf(a, rng.uniform(-3, 3), rng.uniform(-3, 3), rng.uniform(-3, 3)))
        L.append("m.step")
        L.append("m.cv q ft" if with_tf else "m.cv q")
        L.append("g.grad q")
    return {"lines": L, "meta": {"kinds": [kind], "modelled": True, "cfg": cl}, "nontrivial": True}


def gen(rng, tier):
    cases = []
    for k in range(12 if tier == "quick" else 120):
        cases.append(modelled_case(rng, MODELLED[k % len(MODELLED)]))
    n = 60 if tier == "quick" else 600
    # eigenvector: its default fit to the reference neglects the derivative of the rotation on purpose (documented; excluded by the property)
    kinds_all = [x for x in sorted(COMPONENTS) if x != "eigenvector"]
    # a block of cases enumerates the group options on the components whose value depends on where a whole group is
    # (a fit that moves a group matters only then), each under a bias that certainly applies a force
    opt_plan = []
    for comp in ["distance", "distanceZ", "distanceXY", "distanceVec", "angle", "coordNum", "distanceInv", "dipoleAngle"]:
        for mode in ["fittingGroup", "center", "both", "rotate", "dummyAtom"]:
            if mode == "dummyAtom" and comp not in ("distanceZ", "distanceXY"):
                continue
            if mode == "fittingGroup" and comp != "distance":
                continue
            opt_plan.append((comp, mode))
    rng.shuffle(opt_plan)
    opt_plan = opt_plan[:18] if tier == "quick" else opt_plan * 4
    # make sure every mode is present in the quick selection
    want = {"fittingGroup": "fittingGroup", "center": "fit_center_only", "both": "fit_rotate", "rotate": "fit_rotate_only", "dummyAtom": "dummyAtom"}
    k = 0
    while len(cases) < n:
        forced = opt_plan.pop() if opt_plan else None
        kind0 = forced[0] if forced else kinds_all[k % len(kinds_all)]
        if not forced:
            k += 1
        P = positions(rng)
        text, vtype, klist, groups = variable(rng, P, force_kinds=[kind0] if (forced or rng.rand() < 0.8) else kinds_all, allow_two=not forced)
        if vtype == "vector":      # cartesian: harmonic on a generic vector
            natoms = len(groups[0])
            btext, bkind = "harmonic {\n name b\n colvars q\n centers (%s)\n forceConstant 1.2\n}\n" % ", ".join(num(0.1 * i) for i in range(3 * natoms)), "harmonic"
        else:
            btext, bkind = bias_for(rng, vtype, klist)
        if btext is None:
            continue
        if forced:
            ok_ = False
            for _try in range(30):
                t2, gopt, fit = add_group_options(rng, text, P, force=forced[1])
                if gopt == want[forced[1]]:
                    text = t2; ok_ = True
                    break
                text, vtype, klist, groups = variable(rng, P, force_kinds=[kind0], allow_two=False)
            if not ok_:
                continue
            if vtype == "scalar":
                btext, bkind = "harmonic {\n name b\n colvars q\n centers %s\n forceConstant %s\n}\n" % (num(rng.uniform(-1, 1)), num(rng.uniform(0.5, 3.0))), "harmonic"
        else:
            text, gopt, fit = add_group_options(rng, text, P)
            if vtype == "scalar" and len(klist) == 1 and klist[0] in ("distance", "distanceZ", "distanceXY", "gyration", "distanceInv") and len(cases) % 2 == 1:
                # an analytic-kernel bias on two variables: histogramRestraint on q and on a distance between two other atoms
                a1, a2 = 1, NAT
                ref = [rng.uniform(0.05, 0.5) for _ in range(12)]
                btext = ("colvar {\n name q2\n distance {\n  group1 { atomNumbers %d }\n  group2 { atomNumbers %d }\n }\n}\n" % (a1, a2) +
                         "histogramRestraint {\n name b\n colvars q q2\n lowerBoundary 0.0\n upperBoundary 12.0\n width 1.0\n gaussianSigma 1.5\n refHistogram %s\n forceConstant %s\n}\n"
                         % (" ".join(num(r) for r in ref), num(rng.uniform(0.5, 3.0))))
                bkind = "histogramRestraint(2)"
                groups = list(groups) + [[a1 - 1], [a2 - 1]]
        cell = rng.rand() < 0.3
        L = ["m.new %d" % NAT, "M.noclock"]
        if cell:
            L.append("m.opt cell %s %s %s" % (fbits(30.0), fbits(28.0), fbits(34.0)))
        for a in range(NAT):
            L.append("m.mass %d %s" % (a, fbits(rng.choice([1.0, 12.0, 14.0, 16.0, 32.0]))))
            L.append("m.charge %d %s" % (a, fbits(rng.choice([-1.0, -0.5, 0.3, 0.5, 1.0]))))
        L.append(cfg(text)); cfgline = len(L)
        L.append(cfg(btext)); bline = len(L)
        def setpos(Q):
            return [pos(a, Q[a][0], Q[a][1], Q[a][2]) for a in range(NAT)]
        # a few ordinary steps first (metadynamics deposits its hills there)
        Q = [list(p) for p in P]
        for s in range(3 if bkind == "metadynamics" else 1):
            for a in range(NAT):
                Q[a] = [x + rng.uniform(-0.2, 0.2) for x in Q[a]]
            L += setpos(Q); L.append("m.step")
        if bkind == "metadynamics" and len(cases) % 2 == 0:
            # the run is continued by a fresh instance from a state, with hills configured twice as wide: the hills read from the state keep
            # the widths they were deposited with, in the energy and in the force alike
            import os as _os, cvbuild as _cb
            pfx = _os.path.join(_cb.CACHE, "c01-scratch"); _os.makedirs(pfx, exist_ok=True); pfx = _os.path.join(pfx, "m%d" % len(cases))
            L.append("m.save %s" % pfx)
            L += ["m.new %d" % NAT, "M.noclock"] + ([l for l in L if l.startswith("m.opt cell")][:1]) + [l for l in L if l.startswith("m.mass") or l.startswith("m.charge")][:2 * NAT]
            wide = btext.replace("gaussianSigmas 25.0", "gaussianSigmas 50.0").replace("gaussianSigmas 2.5", "gaussianSigmas 5.0")
            L.append(cfg(text)); cfgline = len(L)
            L.append(cfg(wide)); bline = len(L)
            L.append("m.load %s" % pfx)
            bkind = "metadynamics(resumed, wider hills)"
            L += setpos(Q); L.append("m.step")
        Q = [[x + rng.uniform(-0.1, 0.1) for x in q] for q in Q]
        L += setpos(Q); L.append("m.step cont"); base = len(L)
        L.append("m.forces"); fl = len(L)
        L.append("m.cv q"); vl = len(L)
        fd = []
        used = sorted(set(a for g in groups for a in g) | set(fit))
        outside = [a for a in range(NAT) if a not in used]
        probe_atoms = used if len(used) <= 8 else rng.sample(used, 8)
        probe_atoms = probe_atoms + outside[:1]
        for a in probe_atoms:
            for c in range(3):
                rec = {"atom": a, "c": c}
                for sgn, key in ((+1, "p"), (-1, "m"), (+2, "p2"), (-2, "m2")):
                    q = list(Q[a]); q[c] += sgn * H
                    L.append(pos(a, q[0], q[1], q[2])); L.append("m.step cont"); rec[key] = len(L)
                L.append(pos(a, Q[a][0], Q[a][1], Q[a][2]))
                fd.append(rec)
        cases.append({"lines": L, "meta": {"kinds": klist, "vtype": vtype, "bias": bkind, "group_option": gopt, "cell": cell, "cfg": cfgline, "bcfg": bline,
                                            "base": base, "forces": fl, "value": vl, "fd": fd, "outside": outside, "used": used},
                      "nontrivial": True})
    return cases


def distribution(cases):
    d = {"components": {}, "biases": {}, "group_options": {}, "cell": 0, "two_component": 0}
    for c in cases:
        m = c["meta"]
        if "kinds" not in m:
            continue
        if m.get("modelled"):
            d["modelled"] = d.get("modelled", 0) + 1
            continue
        for k in m["kinds"]:
            d["components"][k] = d["components"].get(k, 0) + 1
        d["biases"][m["bias"]] = d["biases"].get(m["bias"], 0) + 1
        d["group_options"][m["group_option"]] = d["group_options"].get(m["group_option"], 0) + 1
        d["cell"] += int(m["cell"]); d["two_component"] += int(len(m["kinds"]) > 1)
    return d


def vals(out, ln, tag):
    v = out.get((ln, tag, 1))
    return None if v is None else [tok_val(t)[1] for t in v]


REJECTED = []


def oracle(case, out):
    m = case["meta"]
    if "kinds" not in m or m.get("modelled"):
        return []
    if vals(out, m["cfg"], "rc") != [0] or vals(out, m["bcfg"], "rc") != [0]:
        REJECTED.append("+".join(m["kinds"]) + "/" + m["group_option"] + "/" + m["bias"])
        return []          # this combination is rejected by the library (counted in the evidence as not evaluated)
    e0 = vals(out, m["base"], "energy")
    if e0 is None:
        return ["no energy was reported"]
    if vals(out, m["base"], "rc") != [0]:
        return []
    viol = []
    what = "%s under %s%s%s" % ("+".join(m["kinds"]), m["bias"], ", " + m["group_option"] if m["group_option"] != "none" else "", ", periodic cell" if m["cell"] else "")
    for rec in m["fd"]:
        ep = vals(out, rec["p"], "energy"); em = vals(out, rec["m"], "energy")
        if ep is None or em is None:
            continue
        f = vals(out, m["forces"], "f%d" % rec["atom"])
        if f is None:
            continue
        fd1 = -(ep[0] - em[0]) / (2 * H)
        fd = fd1; trunc = 0.0
        ep2 = vals(out, rec.get("p2", -1), "energy"); em2 = vals(out, rec.get("m2", -1), "energy")
        if ep2 is not None and em2 is not None:
            # Richardson extrapolation; the difference between the two step sizes estimates the truncation error
            fd2 = -(ep2[0] - em2[0]) / (4 * H)
            fd = (4 * fd1 - fd2) / 3
            trunc = abs(fd1 - fd2) / 3
        fa = f[rec["c"]]
        if not (math.isfinite(fd) and math.isfinite(fa)):
            return [("non-finite: " + "+".join(m["kinds"]), "%s: non-finite energy or force (energy %r / %r, force %r)" % (what, ep[0], em[0], fa))]
        # rounding of the energy itself limits what a difference quotient can resolve
        tol = 2e-6 + 2e-5 * max(abs(fd), abs(fa)) + 16 * 2.2e-16 * abs(e0[0]) / H + 0.2 * trunc
        if abs(fd - fa) > tol:
            kind = "atom outside every group" if rec["atom"] in m["outside"] else "atom of the variable"
            return [("gradient mismatch: " + "+".join(m["kinds"]) + ("/" + m["group_option"] if m["group_option"] != "none" else ""),
                     "%s: force on atom %d (%s), component %s is %r but minus the derivative of the reported energy is %r (energy %r)"
                     % (what, rec["atom"] + 1, kind, "xyz"[rec["c"]], fa, fd, e0[0]))]
    return viol
