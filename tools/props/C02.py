"""C02 — variable values equal their mathematical definition and respect its symmetries."""
import math, re, os, sys
import cvlib
from cvlib import fbits, tok_val, esc
from cvscen import cfg, pos, tf, num
from cvcomp import COMPONENTS, NAT, grp, refpos, vec

RULE = ("one single-component variable of every component type of this build, random groups of 1-8 atoms out of 14 with random masses "
        "and charges: (a) the value is compared with an implementation of the documented definition written independently from the "
        "manual (tools/cvref.py), with and without an orthorhombic cell; (b) symmetry: the same variable in a second instance where all "
        "atoms, the axis, the reference positions and the vector are rotated by a random proper rotation and translated; a rigid "
        "translation alone; whole groups moved by lattice vectors under minimum-image boundaries; the atoms of each group listed in "
        "another order (reference positions permuted alike) and with one atom listed twice; (c) rmsd: no random rotation of the "
        "centred coordinates gives a smaller deviation than the reported one; modelled components are also predicted by the Lean model; "
        "non-trivial = value not zero; distinct by op text")
ASSUMPTIONS = ["the reference implementation follows the manual; where the manual is ambiguous the reading is listed in tools/cvref.py",
               "inter-group distances are kept below half the shortest cell edge, as the property requires"]

# what a rigid rotation of everything (atoms, axis, reference positions, vector) does to the value
ROT_INVARIANT = ["distance", "distanceZ", "distanceZ_ref2", "distanceXY", "distanceXY_ref2", "distanceInv", "angle", "dipoleAngle", "dihedral",
                 "dipoleMagnitude", "gyration", "inertia", "inertiaZ", "coordNum", "coordNum_g2center", "selfCoordNum", "groupCoord", "hBond",
                 "rmsd", "eigenvector", "orientationAngle", "orientationProj", "tilt", "spinAngle"]
ROT_COVARIANT = ["distanceVec", "distanceDir"]           # the value rotates with the atoms
TRANSLATION_INVARIANT = ROT_INVARIANT + ROT_COVARIANT + ["coordNum_aniso", "orientation", "eulerPhi", "eulerTheta", "eulerPsi"]
LATTICE = ["distance", "distanceZ", "distanceXY", "distanceVec", "distanceDir", "angle", "dihedral", "coordNum", "coordNum_g2center", "groupCoord", "hBond"]
CELL = [24.0, 26.0, 22.0]


def rotation(rng):
    """random proper rotation from a random unit quaternion"""
    q = [rng.gauss() for _ in range(4)]
    n = math.sqrt(sum(x * x for x in q)); q = [x / n for x in q]
    a, b, c, d = q
    return [[a*a+b*b-c*c-d*d, 2*(b*c-a*d), 2*(b*d+a*c)],
            [2*(b*c+a*d), a*a-b*b+c*c-d*d, 2*(c*d-a*b)],
            [2*(b*d-a*c), 2*(c*d+a*b), a*a-b*b-c*c+d*d]]


def rot(R, v):
    return [sum(R[i][j] * v[j] for j in range(3)) for i in range(3)]


def parse(text):
    """parameters of the (single) component of a variable's configuration"""
    prm = {"groups": {}}
    for m in re.finditer(r"(\w+) \{\s*atomNumbers ([\d ]+)", text):
        prm["groups"][m.group(1)] = [int(x) - 1 for x in m.group(2).split()]
    m = re.search(r"acceptor (\d+)", text)
    if m:
        prm["groups"]["acceptor"] = [int(m.group(1)) - 1]
        prm["groups"]["donor"] = [int(re.search(r"donor (\d+)", text).group(1)) - 1]
    def triples(key):
        m = re.search(key + r" ((?:\([^)]*\)\s*)+)", text)
        if not m:
            return None
        return [[float(x) for x in t.split(",")] for t in re.findall(r"\(([^)]*)\)", m.group(1))]
    t = triples("axis")
    if t:
        prm["axis"] = t[0]
    t = triples("cutoff3")
    if t:
        prm["cutoff3"] = t[0]
    t = triples("refPositions")
    if t:
        prm["refPositions"] = t
    t = triples("vector")
    if t:
        prm["vector"] = t
    for key, conv in (("cutoff", float), ("expNumer", int), ("expDenom", int), ("exponent", int)):
        m = re.search(r"\b" + key + r" (\S+)", text)
        if m:
            prm[key] = conv(m.group(1))
    if "group2CenterOnly on" in text:
        prm["group2CenterOnly"] = True
    return prm


def config(kind, rng, P):
    t, groups = COMPONENTS[kind][1](rng, P, "")
    return "colvar {\n name q\n " + t.replace("\n", "\n ") + "}\n}\n", groups


def transform_config(text, f_axis=None, f_ref=None, perm=None, dup=False):
    """rotate the axis / reference positions / vector; permute or duplicate the atoms of the groups"""
    def sub_triples(key, f, txt):
        m = re.search(key + r" ((?:\([^)]*\)\s*)+)", txt)
        if not m or f is None:
            return txt
        tr = [[float(x) for x in t.split(",")] for t in re.findall(r"\(([^)]*)\)", m.group(1))]
        new = " ".join(vec(f(i, v)) for i, v in enumerate(tr))
        return txt[:m.start(1)] + new + "\n" + txt[m.end(1):]
    text = sub_triples("axis", (lambda i, v: f_axis(v)) if f_axis else None, text)
    text = sub_triples("refPositions", (lambda i, v: f_ref(v)) if f_ref else None, text)
    text = sub_triples("vector", (lambda i, v: f_axis(v)) if f_axis else None, text)
    if perm is not None or dup:
        def regroup(m):
            ids = m.group(2).split()
            if perm is not None:
                order = perm(len(ids))
                ids = [ids[i] for i in order]
            if dup:
                ids = ids + [ids[0]]
            return "%s {\n   atomNumbers %s" % (m.group(1), " ".join(ids))
        # reference positions follow the order of the atoms of the (single) group they belong to
        if perm is not None and "refPositions" in text:
            m = re.search(r"(\w+) \{\s*atomNumbers ([\d ]+)", text)
            n = len(m.group(2).split()); order = perm(n)
            mm = re.search(r"refPositions ((?:\([^)]*\)\s*)+)", text)
            tr = re.findall(r"\([^)]*\)", mm.group(1))
            text = text[:mm.start(1)] + " ".join(tr[i] for i in order) + "\n" + text[mm.end(1):]
            mm = re.search(r"vector ((?:\([^)]*\)\s*)+)", text)
            if mm:
                tr = re.findall(r"\([^)]*\)", mm.group(1))
                text = text[:mm.start(1)] + " ".join(tr[i] for i in order) + "\n" + text[mm.end(1):]
        text = re.sub(r"(\w+) \{\s*atomNumbers ([\d ]+)", regroup, text)
    return text


def range_duplicates(text):
    """the same groups with a run of consecutive atom numbers given by two overlapping atomNumbersRange keywords (None when no group
    has two consecutive numbers)"""
    changed = [False]

    def regroup(m):
        ids = sorted(set(int(x) for x in m.group(2).split()))
        run = None
        for i in range(len(ids) - 1):
            if ids[i + 1] == ids[i] + 1:
                j = i + 1
                while j + 1 < len(ids) and ids[j + 1] == ids[j] + 1:
                    j += 1
                run = (ids[i], ids[j]); break
        if run is None:
            return m.group(0)
        changed[0] = True
        rest = [x for x in m.group(2).split() if not (run[0] <= int(x) <= run[1])]
        out = "%s {\n" % m.group(1)
        if rest:
            out += "   atomNumbers %s\n" % " ".join(rest)
        # the run, then a second range that names its last atom (and, when it is longer, its tail) again
        out += "   atomNumbersRange %d-%d\n   atomNumbersRange %d-%d\n" % (run[0], run[1], max(run[0], run[1] - 1), run[1])
        return out
    new = re.sub(r"(\w+) \{\s*atomNumbers ([\d ]+)", regroup, text)
    return new if changed[0] else None


def gen(rng, tier):
    cases = []
    kinds = sorted(COMPONENTS)
    reps = 2 if tier == "quick" else 16
    # modelled components: predicted by the Lean model
    from props.C01 import modelled_case, MODELLED
    for k in range(6 if tier == "quick" else 60):
        cases.append(modelled_case(rng, MODELLED[k % len(MODELLED)]))
    for rep_ in range(reps):
        for kind in kinds:
            cell = (rep_ % 2 == 1)
            P = [[rng.uniform(-3.0, 3.0) for _ in range(3)] for _ in range(NAT)]
            M = [rng.choice([1.0, 12.0, 14.0, 16.0, 32.0]) for _ in range(NAT)]
            Q = [rng.choice([-1.0, -0.5, 0.3, 0.5, 1.0]) for _ in range(NAT)]
            text, groups = config(kind, rng, P)
            R = rotation(rng); v = [rng.uniform(-2, 2) for _ in range(3)]
            seedp = rng.randint(1, 1 << 30)
            def perm(n, seedp=seedp):
                r = cvlib.Rng(seedp + n); o = list(range(n)); r.shuffle(o); return o
            inst = []      # (label, config text, positions)
            inst.append(("base", text, P))
            inst.append(("translated", text, [[a + b for a, b in zip(p, v)] for p in P]))
            f_axis = lambda a, R=R: rot(R, a)
            f_ref = lambda a, R=R, v=v: [x + y for x, y in zip(rot(R, a), v)]
            inst.append(("rotated", transform_config(text, f_axis, f_ref), [f_ref(p) for p in P]))
            inst.append(("permuted", transform_config(text, perm=perm), P))
            inst.append(("duplicate", transform_config(text, dup=True), P))
            rd = range_duplicates(text) if "refPositions" not in text else None
            if rd is not None:
                inst.append(("duplicate_range", rd, P))
            if "refPositions" in text:
                # the same reference given as a coordinate file of the whole system, the atoms listed in another order
                import cvbuild
                work = os.path.join(cvbuild.CACHE, "c02-scratch"); os.makedirs(work, exist_ok=True)
                prm0 = parse(text)
                atoms0 = prm0["groups"]["atoms"]
                full = [[rng.uniform(-3, 3) for _ in range(3)] for _ in range(NAT)]
                for a, rp in zip(atoms0, prm0["refPositions"]):
                    full[a] = rp
                fn = os.path.join(work, "ref_%d_%s.xyz" % (rep_, kind))
                with open(fn, "w") as f:
                    f.write("%d\nreference\n" % NAT + "".join("X %s %s %s\n" % (num(p[0]), num(p[1]), num(p[2])) for p in full))
                tf_ = transform_config(text, perm=perm)
                mm = re.search(r"refPositions ((?:\([^)]*\)\s*)+)", tf_)
                tf_ = tf_[:mm.start(0)] + "refPositionsFile %s\n" % fn + tf_[mm.end(0):]
                if "vector " not in tf_:
                    inst.append(("reffile", tf_, P))
            if cell and kind in LATTICE:
                # every group moved as a whole by its own lattice vector
                Pl = [list(p) for p in P]
                for g in groups:
                    n = [rng.randint(-2, 2) for _ in range(3)]
                    for a in set(g):
                        Pl[a] = [Pl[a][i] + n[i] * CELL[i] for i in range(3)]
                inst.append(("lattice", text, Pl))
            L = []; lines = {}
            for label, t, X in inst:
                L += ["m.new %d" % NAT, "M.noclock"]
                if cell:
                    L.append("m.opt cell %s %s %s" % tuple(fbits(x) for x in CELL))
                for a in range(NAT):
                    L.append("m.mass %d %s" % (a, fbits(M[a]))); L.append("m.charge %d %s" % (a, fbits(Q[a])))
                L.append(cfg(t)); cl = len(L)
                for a in range(NAT):
                    L.append(pos(a, *X[a]))
                L.append("m.step"); L.append("m.cv q"); lines[label] = (cl, len(L))
            cases.append({"lines": L, "meta": {"kind": kind, "cell": cell, "lines": lines, "text": text, "P": P, "M": M, "Q": Q, "R": R, "v": v},
                          "nontrivial": True})
    return cases + gen_origin_fit(rng, tier)


def distribution(cases):
    d = {"kinds": {}, "cell": 0}
    for c in cases:
        m = c["meta"]
        if m.get("family") == "origin_fit":
            d["origin_fit"] = d.get("origin_fit", 0) + 1
            continue
        if "kind" not in m:
            d["modelled"] = d.get("modelled", 0) + 1
            continue
        d["kinds"][m["kind"]] = d["kinds"].get(m["kind"], 0) + 1; d["cell"] += int(m["cell"])
    return d


def xval(out, ln):
    v = out.get((ln, "x", 1))
    return None if v is None else [tok_val(t)[1] for t in v]


def close(a, b, rel=1e-9, ab=1e-9):
    return all(abs(x - y) <= ab + rel * max(abs(x), abs(y)) for x, y in zip(a, b)) and len(a) == len(b)


def ang_close(a, b, period):
    return all(abs((x - y + period / 2) % period - period / 2) <= 1e-7 for x, y in zip(a, b))


REF_STATS = {"compared": 0, "no_reference": 0}


def vals(out, ln, tag):
    v = out.get((ln, tag, 1))
    return None if v is None else [tok_val(t)[1] for t in v]


def gen_origin_fit(rng, tier):
    """a group seen in the frame of a separate fitting group, centred on the origin (centerToOrigin): the documented frame is
    x' = R (x - centre of the fitting group), R the optimal rotation of the fitting group onto its reference"""
    cases = []
    for k in range(4 if tier == "quick" else 40):
        P = [[rng.uniform(-3.0, 3.0) for _ in range(3)] for _ in range(NAT)]
        pool = list(range(NAT)); rng.shuffle(pool)
        atoms = sorted(pool[:rng.randint(1, 3)]); fit = sorted(pool[3:3 + rng.randint(3, 5)])
        # reference of the fitting group: the current geometry, rotated, shifted well away from the origin, with noise
        import cvref
        th = rng.uniform(0.4, 2.6); ax = [rng.uniform(-1, 1) for _ in range(3)]; nrm = math.sqrt(sum(x * x for x in ax)); ax = [x / nrm for x in ax]
        def rotv(v):
            c, s_ = math.cos(th), math.sin(th)
            d = sum(a * b for a, b in zip(ax, v))
            cr = [ax[1] * v[2] - ax[2] * v[1], ax[2] * v[0] - ax[0] * v[2], ax[0] * v[1] - ax[1] * v[0]]
            return [v[i] * c + cr[i] * s_ + ax[i] * d * (1 - c) for i in range(3)]
        shift = [rng.uniform(2.0, 5.0) * rng.choice([-1, 1]) for _ in range(3)]
        ref = [[a + b + rng.uniform(-0.2, 0.2) for a, b in zip(rotv(P[i]), shift)] for i in fit]
        corig = k % 4 != 3          # (one in four keeps centerToReference instead: the frame is then shifted to the reference's centre)
        conf = ("colvar {\n name q\n cartesian {\n  atoms {\n   atomNumbers %s\n   %s on\n   rotateToReference on\n   fittingGroup {\n    atomNumbers %s\n   }\n"
                "   refPositions %s\n  }\n }\n}\n") % (" ".join(str(a + 1) for a in atoms), "centerToOrigin" if corig else "centerToReference",
                                                     " ".join(str(a + 1) for a in fit), " ".join("(%s, %s, %s)" % tuple(num(x) for x in r) for r in ref))
        lines = ["m.new %d" % NAT, "M.noclock", cfg(conf)]; cl = len(lines)
        lines += [pos(a, *P[a]) for a in range(NAT)] + ["m.step", "m.cv q"]
        cg = [sum(P[i][c] for i in fit) / len(fit) for c in range(3)]; cr_ = [sum(r[c] for r in ref) / len(ref) for c in range(3)]
        _, R = cvref.optimal_rotation([[P[i][c] - cg[c] for c in range(3)] for i in fit], [[r[c] - cr_[c] for c in range(3)] for r in ref])
        want = []
        for i in atoms:
            d = [P[i][c] - cg[c] for c in range(3)]
            v = [sum(R[r_][c] * d[c] for c in range(3)) for r_ in range(3)]
            want += v if corig else [v[c] + cr_[c] for c in range(3)]
        cases.append({"lines": lines, "meta": {"family": "origin_fit", "cfg": cl, "value": len(lines), "want": want, "corig": corig, "atoms": atoms, "fit": fit},
                      "nontrivial": True})
    return cases


def oracle(case, out):
    m = case["meta"]
    if m.get("family") == "origin_fit":
        if vals(out, m["cfg"], "rc") != [0]:
            return [(None, "generator error: the configuration of the origin_fit family was rejected")]
        x = vals(out, m["value"], "x")
        if x is None or len(x) != len(m["want"]) or any(abs(a - b) > 1e-8 * max(1.0, abs(b)) for a, b in zip(x, m["want"])):
            return [(None, "cartesian coordinates of atoms %s in the frame of the fitting group %s (%s, rotateToReference): the library reports %r; "
                     "R (x - centre of the fitting group)%s with the least-squares rotation gives %r" % (
                         m["atoms"], m["fit"], "centerToOrigin" if m["corig"] else "centerToReference", x, "" if m["corig"] else " + centre of the reference", m["want"]))]
        return []
    if "kind" not in m or "lines" not in m:
        return []
    kind = m["kind"]
    L = m["lines"]
    def get(label):
        if label not in L:
            return None
        cl, vl = L[label]
        if out.get((cl, "rc", 1)) != ["i0"]:
            return "rejected"
        return xval(out, vl)
    base = get("base")
    if base is None or base == "rejected":
        return []
    viol = []
    key = kind.split("_")[0] if kind not in COMPONENTS else kind
    periodic = {"dihedral": 360.0, "polarPhi": 360.0, "spinAngle": 360.0, "eulerPhi": 360.0, "eulerPsi": 360.0}.get(kind)
    def same(a, b):
        return ang_close(a, b, periodic) if periodic else close(a, b, 1e-8, 1e-8)
    cell_note = ", periodic cell" if m["cell"] else ""
    # (a) the documented definition
    try:
        sys.path.insert(0, os.path.join(os.path.dirname(os.path.abspath(__file__)), ".."))
        import cvref
        prm = parse(m["text"])
        name = {"distanceZ_ref2": "distanceZ", "distanceXY_ref2": "distanceXY", "coordNum_aniso": "coordNum", "coordNum_g2center": "coordNum"}.get(kind, kind)
        ref = cvref.value(name, prm, m["P"], m["M"], m["Q"], cell=CELL if m["cell"] else None)
    except ImportError:
        ref = None
    if ref is not None:
        ref = ref if isinstance(ref, (list, tuple)) else [ref]
        REF_STATS["compared"] += 1
        ok = same(base, list(ref))
        if not ok and kind == "orientation" and len(ref) == 4:
            ok = close(base, [-x for x in ref], 1e-8, 1e-8)          # q and -q are the same rotation
        if not ok:
            viol.append(("definition: Euler angles" if kind.startswith("euler") else "definition: " + kind, "%s%s: the library reports %s, the documented definition gives %s"
                         % (kind, cell_note, " ".join("%.12g" % x for x in base[:6]), " ".join("%.12g" % x for x in list(ref)[:6]))))
            return viol
    else:
        REF_STATS["no_reference"] += 1
    # (c) the fit is the least-squares optimum: no other rotation of the centred coordinates comes closer to the reference
    if kind == "rmsd" and ref is not None:
        import cvref
        atoms = prm["groups"]["atoms"]
        X = [m["P"][a] for a in atoms]; Y = prm["refPositions"]
        cx = [sum(p[i] for p in X) / len(X) for i in range(3)]; cy = [sum(p[i] for p in Y) / len(Y) for i in range(3)]
        Xc = [[p[i] - cx[i] for i in range(3)] for p in X]; Yc = [[p[i] - cy[i] for i in range(3)] for p in Y]
        r = cvlib.Rng(int(abs(base[0]) * 1e9) % (1 << 30) + 1)
        for _ in range(200):
            Rr = rotation(r)
            dev = math.sqrt(sum(sum((a - b) ** 2 for a, b in zip(rot(Rr, x), y)) for x, y in zip(Xc, Yc)) / len(Xc))
            if dev < base[0] - 1e-9:
                return [("rmsd not optimal", "rmsd: the library reports %r but the rotation %s gives the smaller deviation %r" % (base[0], Rr, dev))]
    # (b) symmetries
    t = get("translated")
    if kind in TRANSLATION_INVARIANT and t not in (None, "rejected") and not same(base, t):
        return [("translation: " + kind, "%s%s: a rigid translation of all atoms by %s changes the value from %s to %s" % (kind, cell_note, m["v"], base[:4], t[:4]))]
    r = get("rotated")
    if r not in (None, "rejected"):
        if kind in ROT_INVARIANT and not same(base, r):
            return [("rotation: " + kind, "%s%s: rotating and translating all atoms together with the axis / reference positions changes the value from %s to %s" % (kind, cell_note, base[:4], r[:4]))]
        if kind in ROT_COVARIANT and not m["cell"] and not close(rot(m["R"], base), r, 1e-8, 1e-8):
            return [("rotation: " + kind, "%s: the vector does not rotate with the atoms: R x value = %s, value after rotation %s" % (kind, rot(m["R"], base), r))]
    p = get("permuted")
    if p not in (None, "rejected") and kind != "cartesian" and not same(base, p):
        return [("atom order: " + kind, "%s%s: listing the atoms of each group in another order changes the value from %s to %s" % (kind, cell_note, base[:4], p[:4]))]
    dd = get("duplicate")
    if dd not in (None, "rejected") and kind not in ("cartesian",) and "refPositions" not in m["text"] and not same(base, dd):
        return [("duplicate atom: " + kind, "%s%s: listing one atom of a group twice changes the value from %s to %s" % (kind, cell_note, base[:4], dd[:4]))]
    dr = get("duplicate_range")
    if dr not in (None, "rejected") and kind not in ("cartesian",) and not same(base, dr):
        return [("duplicate atom: " + kind, "%s%s: naming an atom of a group in two overlapping atomNumbersRange keywords changes the value from %s to %s" % (kind, cell_note, base[:4], dr[:4]))]
    rf = get("reffile")
    if rf not in (None, "rejected") and not same(base, rf):
        return [("reference file: " + kind, "%s%s: giving the same reference positions as a coordinate file of the whole system, with the group's atoms listed in another order, "
                 "changes the value from %s to %s" % (kind, cell_note, base[:4], rf[:4]))]
    lt = get("lattice")
    if lt not in (None, "rejected") and not same(base, lt):
        return [("lattice translation: " + kind, "%s under minimum-image boundaries: moving whole groups by lattice vectors changes the value from %s to %s" % (kind, base[:4], lt[:4]))]
    return viol
