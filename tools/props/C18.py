"""C18 — distances, gradients, wrapping, interpolation of variable values."""
import math
from cvlib import fbits, bits_to_f, tok_val

RULE = ("pairs of values per type (scalar, periodic scalar, 3-vector, generic vector, unit vector, quaternion) from a "
        "seeded generator: generic stream (uniform), edge stream (dyadic values on half-period ties, whole-period shifts, "
        "identical and antipodal values); non-trivial = the two values differ; distinct by op text")
ASSUMPTIONS = ["periodic scalar variables are realised as distanceZ components with period/wrapAround"]


def unit(rng, n):
    while True:
        v = [rng.gauss() for _ in range(n)]
        s = math.sqrt(sum(x * x for x in v))
        if s > 1e-3:
            return [x / s for x in v]


def gen(rng, tier):
    n = 300 if tier == "quick" else 6000
    cases = []
    periods = [(360.0, 0.0), (360.0, 180.0), (2.0, 0.0), (6.5, -1.25), (1.0, 0.5), (0.75, 10.0)]
    for k in range(n):
        lines = ["m.new 2"]
        kind = rng.choice(["s", "p", "p", "pe", "w", "we", "v3", "vec", "u", "ue", "q", "qs", "qe", "is", "iv", "iu", "iq", "iqe"])
        meta = {"kind": kind}
        nt = True
        if kind == "s":
            a, b = rng.uniform(-50, 50), rng.uniform(-50, 50)
            lines.append("v.dist2 s %s %s" % (fbits(a), fbits(b)))
        elif kind in ("p", "pe"):
            P, c = rng.choice(periods)
            if kind == "p":
                a, b = rng.uniform(-3 * P, 3 * P), rng.uniform(-3 * P, 3 * P)
            else:  # ties and whole periods, exactly representable
                a = rng.dyadic(-4, 4, 3)
                b = a + rng.choice([0.5, -0.5, 1.0, -1.0, 1.5, 2.0, 0.0, 0.25]) * P
                a, b = (a, b) if rng.rand() < 0.5 else (b, a)
            lines.append("v.dist2 p %s %s %s %s" % (fbits(P), fbits(c), fbits(a), fbits(b)))
            lines.append("v.dist2 p %s %s %s %s" % (fbits(P), fbits(c), fbits(b), fbits(a)))
            kk = rng.randint(-3, 3)
            lines.append("v.dist2 p %s %s %s %s" % (fbits(P), fbits(c), fbits(a + kk * P), fbits(b)))
        elif kind in ("w", "we"):
            P, c = rng.choice(periods)
            x = rng.uniform(-5 * P, 5 * P) if kind == "w" else c + rng.choice([0.5, -0.5, 1.5, -1.5, 0.0, 1.0, 2.5]) * P
            lines.append("v.wrap %s %s %s" % (fbits(P), fbits(c), fbits(x)))
        elif kind in ("v3", "vec"):
            m = 3 if kind == "v3" else rng.randint(1, 7)
            a = [rng.uniform(-10, 10) for _ in range(m)]
            b = [rng.uniform(-10, 10) for _ in range(m)]
            lines.append("v.dist2 v %d %s %s" % (m, " ".join(map(fbits, a)), " ".join(map(fbits, b))))
        elif kind == "u":
            a, b = unit(rng, 3), unit(rng, 3)
            lines.append("v.dist2 u %s %s" % (" ".join(map(fbits, a)), " ".join(map(fbits, b))))
            lines.append("v.dist2 u %s %s" % (" ".join(map(fbits, b)), " ".join(map(fbits, a))))
        elif kind == "ue":
            # equivalent values: the same unit vector twice (axis-aligned ones included)
            a = unit(rng, 3) if rng.rand() < 0.7 else rng.choice([[1.0, 0.0, 0.0], [0.0, -1.0, 0.0], [0.0, 0.0, 1.0], [0.6, 0.8, 0.0]])
            lines.append("v.dist2 u %s %s" % (" ".join(map(fbits, a)), " ".join(map(fbits, a))))
            meta["equiv"] = {"a": a}
        elif kind == "qe":
            a = unit(rng, 4) if rng.rand() < 0.7 else rng.choice([[1.0, 0.0, 0.0, 0.0], [0.0, 0.6, 0.0, 0.8], [0.5, 0.5, 0.5, 0.5]])
            b = a if rng.rand() < 0.5 else [-x for x in a]
            lines.append("v.dist2 q %s %s" % (" ".join(map(fbits, a)), " ".join(map(fbits, b))))
            meta["equiv"] = {"a": a}
        elif kind in ("q", "qs"):
            a, b = unit(rng, 4), unit(rng, 4)
            lines.append("v.dist2 q %s %s" % (" ".join(map(fbits, a)), " ".join(map(fbits, b))))
            lines.append("v.dist2 q %s %s" % (" ".join(map(fbits, b)), " ".join(map(fbits, a))))
            nb = [-x for x in b]
            lines.append("v.dist2 q %s %s" % (" ".join(map(fbits, a)), " ".join(map(fbits, nb))))
        elif kind == "is":
            a, b = rng.uniform(-50, 50), rng.uniform(-50, 50)
            l = rng.choice([0.0, 1.0, rng.rand()])
            lines.append("v.interp s %s %s %s" % (fbits(a), fbits(b), fbits(l)))
        elif kind == "iv":
            m = rng.randint(1, 6)
            a = [rng.uniform(-10, 10) for _ in range(m)]
            b = [rng.uniform(-10, 10) for _ in range(m)]
            l = rng.choice([0.0, 1.0, rng.rand()])
            lines.append("v.interp v %d %s %s %s" % (m, " ".join(map(fbits, a)), " ".join(map(fbits, b)), fbits(l)))
        elif kind == "iqe":
            # the same rotation given by two quaternions of opposite sign, or twice by the same one
            a = unit(rng, 4) if rng.rand() < 0.6 else rng.choice([[0.5, 0.5, 0.5, 0.5], [1.0, 0.0, 0.0, 0.0], [0.0, 0.6, 0.8, 0.0]])
            b = [-x for x in a] if rng.rand() < 0.7 else list(a)
            l = rng.choice([0.0, 1.0, 0.5, 0.25, rng.rand()])
            lines.append("v.interp q %s %s %s" % (" ".join(map(fbits, a)), " ".join(map(fbits, b)), fbits(l)))
            meta["same_rotation"] = {"a": a}
        elif kind in ("iu", "iq"):
            m = 3 if kind == "iu" else 4
            a, b = unit(rng, m), unit(rng, m)
            l = rng.choice([0.0, 1.0, rng.rand(), 0.5])
            lines.append("v.interp %s %s %s %s" % ("u" if m == 3 else "q", " ".join(map(fbits, a)), " ".join(map(fbits, b)), fbits(l)))
        # finite-difference probes of the first distance op (oracle: reported gradient = true derivative)
        t = lines[1].split()
        h = 1e-5
        if t[0] == "v.dist2" and kind not in ("pe", "ue", "qe"):
            ty = t[1]
            if ty in ("s", "p"):
                off = 2 if ty == "s" else 4
                a = bits_to_f(t[off])
                for sgn in (1, -1):
                    tt = list(t); tt[off] = fbits(a + sgn * h); lines.append(" ".join(tt))
                meta["fd"] = {"h": h, "v": [1.0], "plus": len(lines) - 1, "minus": len(lines)}
            else:
                m = {"u": 3, "q": 4}.get(ty) or int(t[2])
                off = 2 if ty != "v" else 3
                a = [bits_to_f(x) for x in t[off:off + m]]
                v = [rng.gauss() for _ in range(m)]
                if ty in ("u", "q"):   # tangent direction
                    d = sum(x * y for x, y in zip(a, v))
                    v = [y - d * x for x, y in zip(a, v)]
                for sgn in (1, -1):
                    tt = list(t)
                    for i in range(m):
                        tt[off + i] = fbits(a[i] + sgn * h * v[i])
                    lines.append(" ".join(tt))
                meta["fd"] = {"h": h, "v": v, "plus": len(lines) - 1, "minus": len(lines)}
        cases.append({"lines": lines, "meta": meta, "nontrivial": nt})
    return cases


def distribution(cases):
    d = {}
    for c in cases:
        k = c["meta"].get("kind", "corpus")
        d[k] = d.get(k, 0) + 1
    return d


def fl(out, ln, tag):
    v = out.get((ln, tag, 1))
    if v is None:
        return None
    r = [tok_val(t) for t in v]
    return [x[1] for x in r]


def oracle(case, out):
    """the metric laws evaluated on the implementation's own numbers"""
    viol = []
    L = case["lines"]
    for idx, line in enumerate(L, 1):
        t = line.split()
        if t[0] == "v.dist2":
            d2 = fl(out, idx, "d2")
            if d2 is None or not isinstance(d2[0], float):
                viol.append("no distance returned for: " + line[:60]); continue
            if not (d2[0] >= 0):
                viol.append("squared distance %r is not a non-negative number (%s)" % (d2[0], line[:14]))
        if t[0] == "v.wrap":
            P, c, x = (bits_to_f(s) for s in t[1:4])
            w = fl(out, idx, "w")
            if w is None or not isinstance(w[0], float):
                viol.append("no wrap result"); continue
            w = w[0]
            if not (c - P / 2 - 1e-9 * P <= w < c + P / 2 + 1e-9 * P):
                viol.append("wrapped value %r outside [%r,%r)" % (w, c - P / 2, c + P / 2))
            k = (x - w) / P
            if abs(k - round(k)) > 1e-6:
                viol.append("wrapped value %r differs from %r by a non-integer number of periods" % (w, x))
        if t[0] == "v.interp":
            ip = fl(out, idx, "ip")
            if ip is None:
                viol.append("no interpolation result"); continue
            if t[1] in ("u", "q") and isinstance(ip[0], float):
                n2 = sum(x * x for x in ip)
                if abs(n2 - 1) > 1e-9:
                    viol.append("interpolated value left the manifold: |v|^2=%r" % n2)
            m = {"s": 1, "u": 3, "q": 4}.get(t[1]) or int(t[2])
            off = 2 if t[1] != "v" else 3
            a = [bits_to_f(s) for s in t[off:off + m]]
            b = [bits_to_f(s) for s in t[off + m:off + 2 * m]]
            l = bits_to_f(t[off + 2 * m])
            if isinstance(ip[0], float) and l in (0.0, 1.0):
                tgt = a if l == 0.0 else b
                ok_ = all(abs(x - y) <= 1e-9 for x, y in zip(ip, tgt))
                if t[1] == "q" and not ok_:      # q and -q are the same value
                    ok_ = all(abs(x + y) <= 1e-9 for x, y in zip(ip, tgt))
                if not ok_:
                    viol.append("interpolation at lambda=%r does not reach the end point" % l)
            sr = case["meta"].get("same_rotation")
            if sr and t[1] == "q":
                if not (isinstance(ip[0], float) and all(x == x for x in ip)):
                    viol.append("interpolation between two quaternions of the same rotation at lambda=%r gives %r" % (l, ip))
                elif not (all(abs(x - y) <= 1e-9 for x, y in zip(ip, sr["a"])) or all(abs(x + y) <= 1e-9 for x, y in zip(ip, sr["a"]))):
                    viol.append("interpolation between two quaternions of the same rotation at lambda=%r leaves that rotation: %r" % (l, ip))
    eq = case["meta"].get("equiv")
    if eq:
        d0 = fl(out, 2, "d2"); g = fl(out, 2, "g")
        if d0 is not None and isinstance(d0[0], float) and d0[0] == d0[0] and abs(d0[0]) > 1e-12:
            viol.append("squared distance between equivalent values is %r, not zero" % d0[0])
        if g is None or not all(isinstance(x, float) and x == x and abs(x) != float("inf") for x in g):
            viol.append("gradient of the squared distance at equivalent values is not finite: %r (its tangential part must be the true derivative, 0)" % (g,))
        else:
            a = eq["a"]; d = sum(x * y for x, y in zip(g, a))
            tang = [x - d * y for x, y in zip(g, a)]
            if max(abs(x) for x in tang) > 1e-6:
                viol.append("tangential gradient of the squared distance at equivalent values is %r, the true derivative is 0" % (tang,))
    fd = case["meta"].get("fd")
    if fd:
        dp = fl(out, fd["plus"], "d2"); dm = fl(out, fd["minus"], "d2"); g = fl(out, 2, "g"); d0 = fl(out, 2, "d2")
        if dp and dm and g and all(isinstance(x, float) for x in dp + dm + g):
            num = (dp[0] - dm[0]) / (2 * fd["h"])
            ana = sum(x * y for x, y in zip(g, fd["v"]))
            # skip the neighbourhood of the cut locus / coincident points where the distance is not differentiable
            t = L[1].split()
            smooth = True
            if t[1] == "p":
                P = bits_to_f(t[2]); d = abs(d0[0]) ** 0.5
                smooth = abs(d - P / 2) > 1e-3 * P
            if t[1] in ("u", "q"):
                smooth = 1e-3 < abs(d0[0]) ** 0.5 < (3.14 if t[1] == "u" else 1.57) - 1e-3
            if smooth and abs(num - ana) > 1e-4 * max(1.0, abs(num), abs(ana)):
                viol.append("reported gradient . v = %r but the finite-difference derivative of the squared distance along v is %r" % (ana, num))
    # symmetry / invariance on the grouped lines
    kind = case["meta"].get("kind")
    nmain = len(L) - (2 if fd else 0)
    if kind in ("p", "pe", "u", "q", "qs") and nmain >= 3:
        d = [fl(out, i, "d2") for i in range(2, nmain + 1)]
        if all(x is not None and isinstance(x[0], float) for x in d):
            base = d[0][0]
            for j, x in enumerate(d[1:], 1):
                if abs(x[0] - base) > 1e-7 * max(1.0, abs(base)):
                    viol.append("squared distance changes under %s: %r vs %r" % (
                        ["", "exchange of arguments", "equivalent representative (period/sign)"][j], base, x[0]))
    return viol
