"""C12 — results do not depend on threading or on the order of evaluation."""
import os, subprocess, re
import cvbuild, cvlib
from cvlib import fbits, tok_val, esc
from cvscen import inj_cv, cfg, pos, tf, num

RULE = ("modules with 5-7 variables (single, two- and three-component variables with components switched off and on in mid-run, variables with timeStepFactor 2 and 3, distance and angle "
        "components) and 3-5 biases (harmonic, harmonicWalls, ABF, metadynamics, histogram, some with timeStepFactor), 10-16 steps, "
        "a variable deleted and another defined in mid-run; the serial evaluation is compared, step by step and bit for bit, with the "
        "component-parallel evaluation under every generated schedule: 1-4 threads, random permutation of the work items, random "
        "assignment of items to threads, simulated (deterministic) and real concurrent threads; the thorough tier and a small part of "
        "the quick tier run the real-thread schedules under ThreadSanitizer; non-trivial = at least two items on different threads; "
        "distinct by op text")
ASSUMPTIONS = ["absence of data races is evidence from ThreadSanitizer on the schedules that were run, not a theorem; the theorem "
               "says that race-free items give schedule-independent results",
               "the scripted-force work item needs a Tcl interpreter, which this build does not have"]
NAT = 9


def variables(rng):
    v = []
    v.append(("a", inj_cv("a", 0, -3.0, 3.0, 0.5)))
    v.append(("b", "colvar {\n name b\n width 0.5\n lowerBoundary -4.0\n upperBoundary 4.0\n distanceZ {\n  main { atomNumbers 2 }\n  ref { dummyAtom (0.0, 0.0, 0.0) }\n  axis (0.0, 0.0, 1.0)\n  oneSiteTotalForce on\n }\n"
                   " distanceZ {\n  componentCoeff 0.5\n  main { atomNumbers 3 }\n  ref { dummyAtom (0.0, 0.0, 0.0) }\n  axis (0.0, 0.0, 1.0)\n  oneSiteTotalForce on\n }\n}\n"))
    v.append(("c", inj_cv("c", 3, -3.0, 3.0, 0.5, extra="  timeStepFactor 2\n")))
    v.append(("d", inj_cv("d", 4, -3.0, 3.0, 0.5, extra="  timeStepFactor 3\n")))
    v.append(("g", "colvar {\n name g\n width 0.5\n" + "".join(
        " distanceZ {\n  name g%d\n  componentCoeff %s\n  main { atomNumbers %d }\n  ref { dummyAtom (0.0, 0.0, 0.0) }\n  axis (0.0, 0.0, 1.0)\n }\n" % (i, c, a)
        for i, (c, a) in enumerate([("1.0", 1), ("0.5", 3), ("0.25", 5)])) + "}\n"))          # three components: individual ones are switched off in mid-run
    v.append(("r", "colvar {\n name r\n width 0.2\n lowerBoundary 0.0\n upperBoundary 8.0\n distance {\n  group1 { atomNumbers 6 7 }\n  group2 { atomNumbers 8 }\n }\n}\n"))
    v.append(("t", "colvar {\n name t\n width 5.0\n angle {\n  group1 { atomNumbers 6 }\n  group2 { atomNumbers 7 }\n  group3 { atomNumbers 8 9 }\n }\n}\n"))
    return v


def biases(rng):
    b = []
    b.append(("hab", "harmonic {\n name hab\n colvars a b\n centers 0.3 -0.2\n forceConstant 2.0\n}\n"))
    b.append(("hc", "harmonic {\n name hc\n colvars c\n centers 0.4\n forceConstant 3.0\n timeStepFactor 2\n}\n"))
    b.append(("hd", "harmonic {\n name hd\n colvars d\n centers -0.4\n forceConstant 3.0\n timeStepFactor 3\n}\n"))
    b.append(("hg", "harmonic {\n name hg\n colvars g\n centers 0.1\n forceConstant 1.0\n}\n"))
    b.append(("wr", "harmonicWalls {\n name wr\n colvars r\n upperWalls 2.5\n forceConstant 4.0\n}\n"))
    b.append(("ht", "harmonic {\n name ht\n colvars t\n centers 80.0\n forceConstant 0.5\n}\n"))
    b.append(("ma", "metadynamics {\n name ma\n colvars a\n hillWeight 0.1\n hillWidth 2.0\n newHillFrequency 2\n}\n"))
    b.append(("hs", "histogram {\n name hs\n colvars a b\n}\n"))
    b.append(("ab", "abf {\n name ab\n colvars b\n fullSamples 2\n}\n"))
    return b


ERR_FROM = [0]; ERR_TO = [0]
ERROR_FAMILY = True


def timeline(mode, rng_seed, sched_seed, err_step=-1):
    """mode: ('none',) | ('cvcs', threads, real)"""
    rng = cvlib.Rng(rng_seed)
    srng = cvlib.Rng(sched_seed)
    NAT = globals()["NAT"] + (4 if err_step >= 0 else 0)      # (the failing variable has atoms of its own: nothing else sees the NaN coordinate)
    L = ["m.new %d" % NAT, "M.noclock", "m.opt tf_same 1", "m.opt smp %s" % ("cvcs" if mode[0] == "cvcs" else "none")]
    if mode[0] == "cvcs":
        L += ["m.opt threads %d" % mode[1], "m.opt realthreads %d" % int(mode[2])]
    vs = variables(rng); bs = biases(rng)
    if err_step >= 0:
        # a variable whose component fails at one step (a NaN coordinate makes the diagonalisation of the optimal rotation fail): the
        # other work items of that step must be computed all the same, in every order
        vs.append(("m", "colvar {\n name m\n rmsd {\n  atoms { atomNumbers 10 11 12 13 }\n  refPositions (0.0, 0.0, 0.0) (1.0, 0.0, 0.0) (0.0, 1.0, 0.0) (0.0, 0.0, 1.0)\n }\n}\n"))
    L.append(cfg("".join(t for _, t in vs)))
    nb = rng.randint(4, len(bs))
    chosen = bs[:nb]
    walker = rng.rand() < 0.5
    if walker:
        # a multiple-walker metadynamics bias (it writes its hills for the other walkers at every deposition, its state at exchanges):
        # placed after the first bias, so that it is not the first work item
        chosen = chosen[:1] + [("mw", "metadynamics {\n name mw\n colvars a\n hillWeight 0.1\n hillWidth 2.0\n newHillFrequency 2\n useGrids off\n"
                                      " multipleReplicas on\n replicaID w0\n replicasRegistry reg.txt\n replicaUpdateFrequency 5\n}\n")] + chosen[1:]
        L.append("m.chdir %s" % os.path.join(cvbuild.CACHE, "c12-walker", "%d_%d_%s" % (rng_seed, sched_seed, "_".join(map(str, mode)))))
    L.append(cfg("".join(t for _, t in chosen)))
    if walker:
        L.append("m.opt prefix mwout")
    P = [[rng.uniform(-1, 1) + 1.5 * (a % 3), rng.uniform(-1, 1) + 1.2 * (a // 3), rng.uniform(-1, 1)] for a in range(NAT)]
    N = rng.randint(10, 16)
    swap_at = rng.randint(3, N - 3) if rng.rand() < 0.7 else -1
    probes = []
    names = [n for n, _ in vs]; bnames = [n for n, _ in chosen]
    flag_at = {}
    for s_ in sorted(set(rng.randint(1, N - 1) for _ in range(2))):
        flag_at[s_] = rng.choice([[0, 1, 1], [1, 0, 1], [0, 0, 1], [0, 1, 0], [1, 1, 1], [1, 1, 0]])
    for s in range(N + 1):
        for a in range(NAT):
            P[a] = [x + rng.uniform(-0.15, 0.15) for x in P[a]]
            L.append(pos(a, *P[a])); L.append(tf(a, rng.uniform(-2, 2), rng.uniform(-2, 2), rng.uniform(-2, 2)))
        if s == err_step:
            L.append(pos(11, float("nan"), P[11][1], P[11][2]))
            ERR_FROM[0] = len(probes)          # probes of the failing step: only the variables' values are compared there (what the module does with
                                               # energies and forces after a failed component is outside the property; the next steps are compared in full)
        if mode[0] == "cvcs":
            nitems = 12
            perm = list(range(nitems)); srng.shuffle(perm)
            L.append("m.opt perm " + " ".join(map(str, perm)))
            L.append("m.opt threadof " + " ".join(str(srng.randint(0, max(0, mode[1] - 1))) for _ in range(nitems)))
        L.append("m.step"); probes.append(len(L))
        L.append("m.forces"); probes.append(len(L))
        for n in names:
            L.append("m.cv %s ft fa" % n); probes.append(len(L))
        for n in bnames:
            L.append("m.bias %s" % n); probes.append(len(L))
        if s in flag_at:
            # components of g switched off / on between two steps (`cv colvar g cvcflags`): the work items of the next steps change
            L.append("m.scriptq cv colvar g cvcflags " + esc(" ".join(str(x) for x in flag_at[s])))
        if s == err_step:
            ERR_TO[0] = len(probes)
        if s == swap_at:
            # a variable goes, another one with the same number of components comes (between two steps)
            L.append("m.scriptq cv colvar d delete")
            bnames = [x for x in bnames if x != "hd"]
            names = [x for x in names if x != "d"]
            L.append(cfg(inj_cv("e", 5, -3.0, 3.0, 0.5) + "harmonic {\n name he\n colvars e\n centers 0.1\n forceConstant 1.5\n}\n"))
            names.append("e"); bnames.append("he")
    for n in bnames:
        if n == "ma":
            L.append("mt.dump ma"); probes.append(len(L))
        if n == "ab":
            L.append("a.dump ab"); probes.append(len(L))
        if n == "hs":
            L.append("h.dump hs"); probes.append(len(L))
    L.append("m.savestr"); probes.append(len(L))
    return L, probes


def modelled_timeline(mode, rng_seed, sched_seed):
    """a module the Lean model covers (value-injected variables; harmonic, histogram, ABF): the model's prediction does not
    depend on the schedule, so every schedule must reproduce it"""
    rng = cvlib.Rng(rng_seed); srng = cvlib.Rng(sched_seed)
    L = ["m.new 3", "m.opt tf_same 1", "m.opt tfloop 0", "m.opt smp %s" % ("cvcs" if mode[0] == "cvcs" else "none")]
    if mode[0] == "cvcs":
        L += ["m.opt threads %d" % mode[1], "m.opt realthreads %d" % int(mode[2])]
    conf = inj_cv("a", 0, -3.0, 3.0, 0.5) + inj_cv("f", 1, -2.0, 2.0, 0.5)
    b = ("harmonic {\n name h\n colvars a f\n centers 0.3 -0.2\n forceConstant 2.0\n}\n"
         "histogram {\n name hs\n colvars a\n}\n"
         "abf {\n name ab\n colvars f\n fullSamples 2\n integrate off\n}\n")
    L += [cfg(conf), cfg(b),
          "M.cv a 0 %s %s %s 0" % (fbits(0.5), fbits(0.0), fbits(0.0)), "M.cv f 1 %s %s %s 0" % (fbits(0.5), fbits(0.0), fbits(0.0)),
          "M.harm h 2 a f %s %s %s" % (fbits(2.0), fbits(0.3), fbits(-0.2)),
          "M.hist hs 0 1 a %s %s %s" % (fbits(-3.0), fbits(3.0), fbits(0.5)),
          "M.abf ab 1 f %s %s %s 2 1 1 1 0 0 0 %s" % (fbits(-2.0), fbits(2.0), fbits(0.5), fbits(1.0))]
    z = [rng.uniform(-1, 1), rng.uniform(-1, 1), 0.0]
    for s_ in range(rng.randint(8, 14)):
        for a in range(2):
            z[a] += rng.uniform(-0.4, 0.4)
            L.append(pos(a, 0.0, 0.0, z[a])); L.append(tf(a, 0.0, 0.0, rng.uniform(-3, 3)))
        if mode[0] == "cvcs":
            perm = list(range(6)); srng.shuffle(perm)
            L.append("m.opt perm " + " ".join(map(str, perm)))
            L.append("m.opt threadof " + " ".join(str(srng.randint(0, max(0, mode[1] - 1))) for _ in range(6)))
        L += ["m.step", "m.forces", "m.cv a ft fa", "m.cv f ft fa"]
    L += ["h.dump hs", "a.dump ab"]
    return L


def gen(rng, tier):
    cases = []
    for k in range(6 if tier == "quick" else 60):
        seed = rng.randint(1, 1 << 30)
        lines = []
        for md in [("none",), ("cvcs", 1, False), ("cvcs", rng.randint(2, 4), False), ("cvcs", rng.randint(2, 4), True)]:
            lines += modelled_timeline(md, seed, rng.randint(1, 1 << 30))
        cases.append({"lines": lines, "meta": {"kind": "modelled"}, "nontrivial": True})
    n = 8 if tier == "quick" else 80
    for k in range(n):
        seed = rng.randint(1, 1 << 30)
        L0, p0 = timeline(("none",), seed, 0)
        lines = list(L0); refs = list(p0); variants = []
        modes = [("cvcs", 1, False), ("cvcs", rng.randint(2, 4), False), ("cvcs", rng.randint(2, 4), True)]
        if k % 2:
            modes.append(("cvcs", 4, True))
        for md in modes:
            Lv, pv = timeline(md, seed, rng.randint(1, 1 << 30))
            off = len(lines)
            lines += Lv
            variants.append({"mode": [md[0], md[1], bool(md[2])], "probes": [x + off for x in pv]})
        cases.append({"lines": lines, "meta": {"kind": "schedules", "ref": refs, "variants": variants}, "nontrivial": True})
    # a step at which one component fails: threaded schedules compared with each other (the serial loop stops at the failing variable, the
    # threaded one does not: they are not compared at that step)
    # WITHDRAWN (ERROR_FAMILY off): on the unchanged tree the outcome of a step at which the rmsd component is fed a NaN coordinate is not
    # reproducible (the error is raised or not from run to run) and, when it is raised in all runs, the data the histogram bias accumulates at
    # that step still differ between thread counts (leads/C12_error_step_schedule_dependence.txt).  Not characterised yet: no alarm is raised
    # from it, and seeded change C12-5 (which needs such a step) is therefore not caught.
    for k in range((2 if tier == "quick" else 12) if ERROR_FAMILY else 0):
        seed = rng.randint(1, 1 << 30); es = rng.randint(2, 6)
        L0, p0 = timeline(("cvcs", 1, False), seed, rng.randint(1, 1 << 30), err_step=es)
        values_only = list(range(ERR_FROM[0], ERR_TO[0]))
        lines = list(L0); refs = list(p0); variants = []
        for md in [("cvcs", 2, False), ("cvcs", 3, False), ("cvcs", 4, False)]:
            Lv, pv = timeline(md, seed, rng.randint(1, 1 << 30), err_step=es)
            off = len(lines)
            lines += Lv
            variants.append({"mode": [md[0], md[1], bool(md[2])], "probes": [x + off for x in pv]})
        cases.append({"lines": lines, "meta": {"kind": "schedules", "ref": refs, "variants": variants, "threaded_ref": True, "err_step": es, "values_only": values_only}, "nontrivial": True})
    return cases


def distribution(cases):
    d = {"schedules": 0, "real_thread_schedules": 0, "steps": 0}
    for c in cases:
        m = c["meta"]
        if m.get("kind") != "schedules":
            continue
        d["schedules"] += len(m["variants"]); d["real_thread_schedules"] += sum(1 for v in m["variants"] if v["mode"][2])
        d["steps"] += sum(1 for l in c["lines"] if l == "m.step")
    return d


def lines_at(out, ln):
    return {(tag, occ): v for (l, tag, occ), v in out.items() if l == ln}


def oracle(case, out):
    m = case["meta"]
    if m.get("kind") != "schedules":
        return []
    for v in m["variants"]:
        if len(v["probes"]) != len(m["ref"]):
            return ["internal: probe lists differ in length"]
        if m.get("values_only"):
            # the comparison is made only when the component did raise its error in both runs (whether a NaN coordinate makes the
            # diagonalisation fail is not reproducible from run to run on the unchanged tree; a step without the error is an ordinary step)
            p0 = m["values_only"][0]
            r0 = out.get((m["ref"][p0], "rc", 1)); r1 = out.get((v["probes"][p0], "rc", 1))
            if r0 != ["i1"] or r1 != ["i1"]:
                continue
        for pi, (a, b) in enumerate(zip(m["ref"], v["probes"])):
            ra, rb = lines_at(out, a), lines_at(out, b)
            if pi in m.get("values_only", ()):
                ra = {k: v_ for k, v_ in ra.items() if k[0] == "x"}; rb = {k: v_ for k, v_ in rb.items() if k[0] == "x"}
            if ra != rb:
                what = case["lines"][a - 1][:40]
                diff = [k for k in set(ra) | set(rb) if ra.get(k) != rb.get(k)]
                k0 = sorted(diff)[0]
                return ["%s evaluation with %d %s thread(s) differs from the %s one at '%s' (op line %d): %s = %s, serial %s"
                        % ("component-parallel", v["mode"][1], "real" if v["mode"][2] else "simulated",
                           ("single-thread, identity-order (a component fails at step %d)" % m["err_step"]) if m.get("threaded_ref") else "serial", what, b, k0[0],
                           " ".join(rb.get(k0, ["-"]))[:90], " ".join(ra.get(k0, ["-"]))[:90])]
    return []


RACE = re.compile(r"WARNING: ThreadSanitizer: data race")


def extra(rep, tier, rng):
    """real threads under ThreadSanitizer"""
    exe = cvbuild.build_harness("tsan")
    work = os.path.join(cvbuild.CACHE, "c12-%d" % os.getpid())
    os.makedirs(work, exist_ok=True)
    n = 2 if tier == "quick" else 16
    races = 0; runs = 0
    try:
        for k in range(n):
            L, _ = timeline(("cvcs", rng.randint(2, 4), True), rng.randint(1, 1 << 30), rng.randint(1, 1 << 30))
            f = os.path.join(work, "t%d.txt" % k)
            open(f, "w").write("\n".join(L) + "\n")
            p = subprocess.run([exe, f], stdout=subprocess.PIPE, stderr=subprocess.PIPE, text=True, errors="replace", timeout=900,
                               env=dict(os.environ, TSAN_OPTIONS="halt_on_error=0 second_deadlock_stack=1 history_size=4"))
            runs += 1
            if RACE.search(p.stderr):
                races += 1
                first = p.stderr[p.stderr.index("WARNING: ThreadSanitizer"):][:3000]
                rep.violation("ThreadSanitizer reports a data race between concurrently evaluated work items (schedule %d)" % k,
                              "#! run under the tsan build of the harness (tools/cvbuild.py, variant tsan)\n#! " + first.replace("\n", "\n#! ") + "\n" + "\n".join(L) + "\n",
                              "tsan_%d_seed%d" % (k, rep.seed), found_input=True)
                break
            if p.returncode != 0:
                rep.violation("the library died under real threads (status %d, schedule %d)" % (p.returncode, k), "\n".join(L) + "\n",
                              "tsan_crash_%d_seed%d" % (k, rep.seed), found_input=True)
                break
    finally:
        import shutil
        shutil.rmtree(work, ignore_errors=True)
    rep.extra["threadsanitizer"] = {"runs": runs, "races": races}
