"""C20 — the scripting interface is total and agrees with the engine-side view."""
import math, os, subprocess, re
import cvbuild
from cvlib import fbits, bits_to_f, tok_val, esc
from cvscen import inj_cv, cfg, pos, tf, num

VARIANT = "asan"     # totality is also about memory: out-of-bounds accesses in command bodies abort the process
RULE = ("sequences of 25-60 script commands on a module with 2 variables (one with overlapping atom groups) and 2-3 biases: "
        "well-formed commands drawn from the command table regenerated from the source (every command, right and wrong arity), "
        "malformed ones (missing / extra / empty / very long / non-numeric arguments, unknown objects and sub-commands), "
        "interleaved with engine steps, object deletions and additions; the outcome class of every call is compared with the "
        "dispatch model; query results are compared with the engine-side arrays of the same step; non-trivial = at least one "
        "command body ran and one was rejected; distinct by op text")
ASSUMPTIONS = ["outcome classes of rejected calls are read from the dispatcher's own messages (no hook in the library)",
               "the 86 command bodies themselves are not modelled: their numbers are checked against engine-side data by the oracle"]


def table():
    txt = open(os.path.join(cvbuild.LEAN, "CvModel", "Gen", "Commands.lean")).read()
    return [(m.group(1), int(m.group(2)), int(m.group(3))) for m in re.finditer(r'\("([a-z_0-9]+)", (\d+), (\d+)\)', txt)]


OVERLAP = """colvar {
  name d
  distance {
    group1 { atomNumbers 1 2 }
    group2 { atomNumbers 2 3 }
  }
}
"""


def rand_arg(rng, kind="any"):
    r = rng.rand()
    if r < 0.25:
        return str(rng.randint(-3, 12))
    if r < 0.45:
        return num(rng.uniform(-5, 5))
    if r < 0.55:
        return ""
    if r < 0.62:
        return "x" * rng.choice([300, 5000])
    if r < 0.8:
        return rng.choice(["abc", "1e400", "nan", "(1,2,3)", "{ 1 2", "}", "colvar", "-", "0x10", "value", "width 2.0"])
    return rng.choice(["d", "z", "h", "hs", "nosuch"])


def gen(rng, tier):
    tab = table()
    n = 20 if tier == "quick" else 200
    cases = []
    # commands whose bodies we do not run with arbitrary arguments in a shared process: none excluded by the property,
    # but file-writing ones get scratch paths
    scratch = os.path.join(cvbuild.CACHE, "c20-scratch")
    os.makedirs(scratch, exist_ok=True)
    for k in range(n):
        conf = OVERLAP + inj_cv("z", 3, -3.0, 3.0, 0.5)
        hconf = "harmonic {\n name h\n colvars d z\n forceConstant 2.0\n centers 1.5 0.2\n}\n"
        sconf = "histogram {\n name hs\n colvars z\n}\n"
        vconf = "colvar {\n  name v\n  distancePairs {\n    group1 { atomNumbers 6 7 }\n    group2 { atomNumbers 5 }\n  }\n}\n"    # a vector-valued variable
        lines = ["m.new 7", "M.noclock", cfg(conf + vconf), cfg(hconf), cfg(sconf)]      # (atoms 4-6 are used only by v and by configuration added through the script)
        lines += [pos(4, 0.3, 0.1, 0.2), pos(5, 2.0, 0.5, -0.4), pos(6, -1.5, 1.0, 0.8)]
        cvs = ["d", "z", "v"]; biases = ["h", "hs"]
        lines.append("S.names cvs=%s biases=%s" % (",".join(cvs), ",".join(biases)))
        lines.append("m.script cv colvar d set collect_gradient 1")
        if k == 0:
            lines.append("s.table")
        P = [[rng.uniform(-1, 1) for _ in range(3)] for _ in range(4)]
        P[1][0] += 2.0; P[2][0] += 4.0
        ncmd = rng.randint(25, 60)
        queries = []
        stepped = False
        # directed: configuration added by script behaves like configuration read by the engine, also after a rejected piece
        expect = []
        if k % 2 == 1:
            bad = rng.choice(["colvar {\n name broken\n distanceZ {\n main { atomNumbers 1 }\n }\n}", "harmonic { colvars d", "nosuchkeyword 3",
                              "colvar {\n name q\n nosuchcomponent {\n }\n}"])
            lines.append("m.script cv config " + esc(bad))
            lines.append("S.names cvs=%s biases=%s" % (",".join(cvs), ",".join(biases))); lines.append("m.counts"); expect.append((len(lines), len(cvs), len(biases), "a rejected piece of configuration"))
            good = "colvar {\n name wd%d\n distanceZ {\n main { atomNumbers 5 }\n ref { dummyAtom (0.0, 0.0, 0.0) }\n }\n}" % k
            lines.append("m.script cv config " + esc(good)); cvs = cvs + ["wd%d" % k]
            lines.append("S.names cvs=%s biases=%s" % (",".join(cvs), ",".join(biases))); lines.append("m.counts"); expect.append((len(lines), len(cvs), len(biases), "a valid colvar block submitted with cv config after a rejected one"))
            gb = "harmonic {\n name wb%d\n colvars wd%d\n centers 0.5\n forceConstant 2.0\n}" % (k, k)
            lines.append("m.script cv config " + esc(gb)); biases = biases + ["wb%d" % k]
            lines.append("S.names cvs=%s biases=%s" % (",".join(cvs), ",".join(biases))); lines.append("m.counts"); expect.append((len(lines), len(cvs), len(biases), "a valid bias block submitted with cv config"))
        if k % 4 == 2:
            # directed: a variable with two dependent biases is deleted by script: both go with it (what a configuration that never had them
            # gives), and the module goes on stepping
            lines.append("m.script cv colvar z delete")
            cvs = [c for c in cvs if c != "z"]; biases = [b for b in biases if b not in ("h", "hs")]
            lines.append("S.names cvs=%s biases=%s" % (",".join(cvs), ",".join(biases))); lines.append("m.counts")
            expect.append((len(lines), len(cvs), len(biases), "cv colvar z delete (two biases depend on z)"))
        for j in range(ncmd):
            r = rng.rand()
            if r < 0.2 or not stepped:
                for a in range(4):
                    P[a] = [x + rng.uniform(-0.2, 0.2) for x in P[a]]
                    lines.append(pos(a, P[a][0], P[a][1], P[a][2]))
                lines.append("m.step"); stepped = True
                # engine-side view of this step, followed by the script-side view
                lines.append("m.forces"); fl = len(lines)
                lines.append("m.cv d fa"); dl = len(lines)
                lines.append("m.cv z fa"); zl = len(lines)
                lines.append("m.script cv colvar d value"); q1 = len(lines)
                lines.append("m.script cv colvar d getgradients"); q2 = len(lines)
                lines.append("m.script cv colvar d getappliedforce"); q3 = len(lines)
                lines.append("m.script cv getatomappliedforces"); q4 = len(lines)
                lines.append("m.script cv getatomids"); q5 = len(lines)
                lines.append("m.script cv getenergy"); q6 = len(lines)
                lines.append("m.script cv colvar z value"); q7 = len(lines)
                if len(queries) == 0 and "v" in cvs:
                    # a force on the vector-valued variable given as a string of numbers: right length, too short, too long
                    for arg in ("0.5 -0.25", "0.5", "0.5 -0.25 3.0", "( 0.5 , -0.25 )"):
                        lines.append("m.script cv colvar v addforce " + esc(arg))
                queries.append({"forces": fl, "d": dl, "z": zl, "value": q1, "grad": q2, "af": q3, "atomf": q4, "ids": q5, "energy": q6,
                                "zvalue": q7, "step": fl - 1, "have_d": "d" in cvs, "have_z": "z" in cvs})
                continue
            fn, mn, mx = tab[rng.randint(0, len(tab) - 1)]
            kind, sub = fn.split("_", 1)
            if fn in ("cv_bias", "cv_colvar"):
                words = ["cv", sub] + ([rng.choice(cvs + ["nosuch"])] if rng.rand() < 0.5 else [])
            elif kind == "cv":
                words = ["cv", sub]
            elif kind == "colvar":
                words = ["cv", "colvar", rng.choice(cvs + cvs + ["nosuch", ""]) if cvs else "nosuch", sub]
            else:
                words = ["cv", "bias", rng.choice(biases + biases + ["nosuch"]) if biases else "nosuch", sub]
            # arity: mostly right, sometimes too few / too many
            r2 = rng.rand()
            na = rng.randint(mn, mx) if r2 < 0.7 else (max(0, mn - 1) if r2 < 0.85 else mx + rng.randint(1, 2))
            args = []
            for a in range(na):
                if fn in ("cv_save", "bias_save", "cv_load", "bias_load", "cv_configfile"):
                    args.append(os.path.join(scratch, "f%d" % rng.randint(0, 3)))
                elif fn == "cv_config" and rng.rand() < 0.5:
                    # (one keyword per line: "name" takes the rest of its line as its value)
                    args.append("colvar {\n name w%d\n distanceZ {\n main { atomNumbers 1 }\n ref { dummyAtom (0.0, 0.0, 0.0) }\n }\n}" % j)
                elif fn in ("colvar_get", "colvar_set", "bias_get", "bias_set") and a == 0 and rng.rand() < 0.6:
                    args.append(rng.choice(["apply_force", "active", "collect_gradient", "nosuchfeature", "output_energy"]))
                else:
                    args.append(rand_arg(rng))
            if rng.rand() < 0.08:
                words = words[:rng.randint(1, len(words))]       # truncated command line
            if rng.rand() < 0.05:
                words[1:2] = [rng.choice(["frobnicate", "", "Colvar", "cv"])]
            # empty words cannot travel as tokens: they are sent as the marker \\e
            toks = [(esc(w_) if w_ != "" else "\\e") for w_ in words + args]
            lines.append("m.script " + " ".join(toks))
            # side effects on the set of objects (only when the call is well-formed and reaches its body)
            full = words + args
            if len(full) >= 2 and full[1] == "reset" and len(full) == 2:
                cvs, biases = [], []
            if len(full) == 4 and full[1] == "colvar" and full[3] == "delete" and full[2] in cvs:
                cvs = [c for c in cvs if c != full[2]]
                if full[2] in ("d", "z"):
                    biases = [b for b in biases if not (b == "h" or (b == "hs" and full[2] == "z"))]
                if full[2].startswith("wd"):          # the restraint added by script on that variable goes with it
                    biases = [b for b in biases if b != "wb" + full[2][2:]]
            if len(full) == 4 and full[1] == "bias" and full[3] == "delete" and full[2] in biases:
                biases = [b for b in biases if b != full[2]]
            if len(full) == 3 and full[1] == "config" and full[2].startswith("colvar {\n name w"):
                cvs = cvs + [full[2].split()[3]]
            lines.append("S.names cvs=%s biases=%s" % (",".join(cvs), ",".join(biases)))
            lines.append("m.counts")
        cases.append({"lines": lines, "meta": {"queries": queries, "ncmd": ncmd, "expect_counts": expect}, "nontrivial": True})
    # a scripted bias (the user's force callback: `cv colvar x addforce F`, `cv addenergy E`) next to a built-in one: the engine must
    # get the energy and forces of both, whether the callback runs before or after the built-in biases
    for k in range(6 if tier == "quick" else 40):
        after = k % 2 == 1
        smp = ["none", "cvcs"][(k // 2) % 2]
        kf = rng.choice([2.0, 10.0]); c0 = rng.uniform(-1, 1); w = 0.5
        fs = rng.uniform(-3, 3); es = rng.uniform(0.5, 4.0)
        two = k % 3 == 2
        conf = "scriptedColvarForces on\nscriptingAfterBiases %s\n" % ("on" if after else "off") + inj_cv("x0", 0, -3.0, 3.0, w)
        bconf = "harmonic {\n name hb\n colvars x0\n forceConstant %s\n centers %s\n}\n" % (num(kf), num(c0))
        if two:
            bconf += "linear {\n name lb\n colvars x0\n forceConstant 1.5\n centers 0.25\n}\n"
        lines = ["m.new 1", "M.noclock", "m.opt smp %s" % smp, "m.opt threads 2", "m.opt scriptlast %d" % ((k // 4) % 2), cfg(conf), cfg(bconf),
                 "m.callback cv colvar x0 addforce %s ; cv addenergy %s" % (num(fs), num(es))]
        steps = []
        x = rng.uniform(-1.5, 1.5)
        for t in range(rng.randint(4, 8)):
            x += rng.uniform(-0.4, 0.4)
            lines += [pos(0, 0.0, 0.0, x), "m.step"]; sl = len(lines)
            lines.append("m.forces"); fl = len(lines)
            lines.append("m.script cv getenergy"); ql = len(lines)
            steps.append({"x": x, "step": sl, "forces": fl, "q": ql})
        cases.append({"lines": lines, "meta": {"callback": {"after": after, "smp": smp, "k": kf, "c": c0, "w": w, "fs": fs, "es": es, "two": two, "steps": steps},
                                               "queries": [], "ncmd": 0, "expect_counts": []}, "nontrivial": True})
    # components switched off and on by script (`cv colvar xi cvcflags`): value and total force as the script reports them against the
    # closed forms for the components that are on (a linear combination: sum c_i q_i, total force sum c_i f_i / sum c_i^2 over the active ones)
    for k in range(4 if tier == "quick" else 30):
        coef = [1.0, rng.choice([3.0, 0.5]), rng.choice([2.0, -1.5])][:2 + (k % 2)]
        comps = "".join(" distanceZ {\n  name c%d\n  componentCoeff %s\n  main { atomNumbers %d }\n  ref { dummyAtom (0.0, 0.0, 0.0) }\n  axis (0.0, 0.0, 1.0)\n  oneSiteTotalForce on\n }\n"
                        % (i, num(c), i + 1) for i, c in enumerate(coef))
        conf = "colvar {\n name xi\n outputTotalForce on\n%s}\n" % comps
        lines = ["m.new %d" % len(coef), "M.noclock", "m.opt tf_same 1", "m.opt smp %s" % ["none", "cvcs"][k % 2], cfg(conf), "S.names cvs=xi biases=", "V.comb xi " + " ".join(fbits(c_) for c_ in coef)]
        n = len(coef)
        sched = [[1] * n] + [rng.choice([[1, 0, 1], [0, 1, 1], [1, 0, 0], [0, 1, 0], [0, 0, 1], [1, 1, 0]])[:n] if n == 3 else rng.choice([[1, 0], [0, 1]]) for _ in range(7)]
        if n == 2:
            sched = [[1, 1], [1, 0], [0, 1], [0, 1], [1, 0], [1, 1], [0, 1], [1, 0]]
        steps = []
        for fl in sched:
            if not any(fl):
                fl = [1] * n
            lines.append("m.script cv colvar xi cvcflags " + esc(" ".join(map(str, fl))))
            z = [rng.uniform(-2, 2) for _ in range(n)]; fz = [rng.uniform(-3, 3) for _ in range(n)]
            for a in range(n):
                lines += [pos(a, rng.uniform(-1, 1), rng.uniform(-1, 1), z[a]), tf(a, rng.uniform(-1, 1), rng.uniform(-1, 1), fz[a])]
            lines.append("m.step"); sl = len(lines)
            lines.append("m.script cv colvar xi value"); vl = len(lines)
            lines.append("m.script cv colvar xi gettotalforce"); tl = len(lines)
            lines.append("m.cv xi ft"); el = len(lines)
            steps.append({"flags": fl, "z": z, "fz": fz, "step": sl, "value": vl, "tf": tl, "engine": el})
        cases.append({"lines": lines, "meta": {"flags": {"coef": coef, "steps": steps}, "queries": [], "ncmd": 0, "expect_counts": []}, "nontrivial": True})
    # a state saved by a session that was configured piece by piece through the script (objects in call order) loaded by a session that
    # got the same text as one configuration (objects in the parser's type order): every object must find its block
    for k in range(3 if tier == "quick" else 20):
        pfx = os.path.join(scratch, "so%d" % k)
        vconf = inj_cv("x0", 0, -3.0, 3.0, 0.5) + inj_cv("x1", 1, -3.0, 3.0, 0.5)
        hist = "histogram {\n name hs\n colvars x0\n}\n"
        c0 = rng.uniform(-1, 0); c1 = c0 + rng.uniform(1.0, 2.0)
        harm = "harmonic {\n name hm\n colvars x1\n centers %s\n targetCenters %s\n targetNumSteps 40\n forceConstant 2.0\n outputAccumulatedWork on\n}\n" % (num(c0), num(c1))
        walls = "harmonicWalls {\n name hw\n colvars x0\n upperWalls 0.5\n forceConstant 1.0\n targetForceConstant 3.0\n targetNumSteps 30\n}\n"
        pieces = [hist, walls, harm]
        if k % 2:
            pieces = [walls, hist, harm]
        lines = ["m.new 2", "M.noclock", cfg(vconf)] + ["m.script cv config " + esc(p_) for p_ in pieces]
        for t in range(rng.randint(6, 12)):
            lines += [pos(0, 0.0, 0.0, rng.uniform(-1, 1)), pos(1, 0.0, 0.0, rng.uniform(-1, 1)), "m.step"]
        lines += ["r.dump hm"]; a_r = len(lines)
        lines += ["r.dump hw"]; a_w = len(lines)
        lines += ["h.dump hs"]; a_h = len(lines)
        lines += ["m.save %s" % pfx, "m.new 2", "M.noclock", cfg(vconf + hist + walls + harm), "m.load %s" % pfx]; ld = len(lines)
        lines += ["r.dump hm"]; b_r = len(lines)
        lines += ["r.dump hw"]; b_w = len(lines)
        lines += ["h.dump hs"]; b_h = len(lines)
        cases.append({"lines": lines, "meta": {"stateorder": {"a": [a_r, a_w, a_h], "b": [b_r, b_w, b_h], "load": ld, "order": [p_.split()[0] for p_ in pieces]},
                                               "queries": [], "ncmd": 0, "expect_counts": []}, "nontrivial": True})
    # objects deleted by script in any order: what is left is what the bookkeeping model (CvModel/Objects.lean) leaves — deleting a
    # variable takes every bias registered with it along (any number of them), deleting a bias takes only itself, and the module steps on
    for k in range(6 if tier == "quick" else 60):
        nv = rng.randint(2, 4); nb = rng.randint(1, 5)
        vs = ["x%d" % i for i in range(nv)]
        vconf = "".join(inj_cv(v, i, -3.0, 3.0, 0.5) for i, v in enumerate(vs))
        deps = []
        bconf = ""
        for j in range(nb):
            on = sorted(rng.sample(vs, rng.randint(1, min(3, nv))))
            if k % 3 == 0 and j < 3:
                on = sorted(set(on + [vs[0]]))            # several biases on one variable
            deps.append(("b%d" % j, on))
            bconf += "harmonic {\n name b%d\n colvars %s\n centers %s\n forceConstant 1.0\n}\n" % (j, " ".join(on), " ".join("0.0" for _ in on))
        lines = ["m.new %d" % nv, "M.noclock", cfg(vconf + bconf),
                 "O.objs cvs=%s deps=%s" % (",".join(vs), ",".join("%s:%s" % (b, "+".join(o)) for b, o in deps))]
        cur_v = list(vs); cur_b = list(deps)
        track = []
        def step():
            for a in range(nv):
                lines.append(pos(a, 0.0, 0.0, rng.uniform(-1, 1)))
            lines.append("m.step")
        step()
        for t in range(rng.randint(2, 5)):
            if not cur_v and not cur_b:
                break
            if cur_v and (rng.rand() < 0.6 or not cur_b):
                v = rng.choice(cur_v)
                lines.append("o.delvar " + v)
                cur_v = [x for x in cur_v if x != v]; cur_b = [(b, o) for b, o in cur_b if v not in o]
            else:
                b = rng.choice(cur_b)[0]
                lines.append("o.delbias " + b)
                cur_b = [(b_, o) for b_, o in cur_b if b_ != b]
            track.append((len(lines), list(cur_v), [b_ for b_, _ in cur_b]))
            lines.append("m.counts")
            step()
        cases.append({"lines": lines, "meta": {"objects": {"track": track, "deps": deps}, "queries": [], "ncmd": 0, "expect_counts": []}, "nontrivial": True})
    return cases


def objects_oracle(ob, out):
    """independent bookkeeping (the generator's own): names left after every deletion, and the counts the module reports next"""
    for ln, vs, bs in ob["track"]:
        v = out.get((ln, "objs", 1))
        if v is None:
            return ["no object list after the deletion at op line %d" % ln]
        got = tok_val(v[0])[1]
        want = ",".join(vs) + "|" + ",".join(bs)
        if got != want:
            return ["after the deletion at op line %d the module holds %s, expected %s (biases configured as %s)"
                    % (ln, got, want, "; ".join("%s on %s" % (b, "+".join(o)) for b, o in ob["deps"]))]
        ncv = vals(out, ln + 1, "ncv"); nb = vals(out, ln + 1, "nb")
        if ncv is None or nb is None or ncv[0] != len(vs) or nb[0] != len(bs):
            return ["after the deletion at op line %d the module counts %s variables and %s biases, expected %d and %d" % (ln, ncv, nb, len(vs), len(bs))]
    return []


def stateorder_oracle(so, out):
    if out.get((so["load"], "rc", 1)) != ["i0"]:
        return ["a state saved by a session configured piece by piece (%s) could not be loaded by a session configured in one piece" % ", ".join(so["order"])]
    for (la, lb, what, tags) in ((so["a"][0], so["b"][0], "the moving restraint hm", ("centers", "work", "stage")),
                                 (so["a"][1], so["b"][1], "the walls hw", ("k", "stage")), (so["a"][2], so["b"][2], "the histogram hs", ("data",))):
        for tag in tags:
            va = vals(out, la, tag); vb = vals(out, lb, tag)
            if va is None or vb is None or len(va) != len(vb) or any(abs(x - y) > 1e-9 * max(1.0, abs(x)) for x, y in zip(va, vb)):
                return ["state saved by a session configured through the script in the order (%s) and loaded by a session configured in one piece: %s of %s is %r after "
                        "loading, the saving session held %r (the block of that object was not applied)" % (", ".join(so["order"]), tag, what, vb, va)]
    return []


def flags_oracle(fm, out):
    c = fm["coef"]
    for i, st in enumerate(fm["steps"]):
        act = [j for j, f in enumerate(st["flags"]) if f]
        val = sum(c[j] * st["z"][j] for j in act)
        ft = sum(c[j] * st["fz"][j] for j in act) / sum(c[j] ** 2 for j in act)
        rv = vals(out, st["value"], "res"); rt = vals(out, st["tf"], "res")
        gv = nums(unesc(rv[0])) if rv else None
        gt = nums(unesc(rt[0])) if rt else None
        how = "components %s on (coefficients %s)" % ("".join(str(f) for f in st["flags"]), c)
        if not gv or abs(gv[0] - val) > 1e-9 * max(1.0, abs(val)):
            return ["step %d, %s set by cv colvar xi cvcflags: cv colvar xi value returns %r, the active components give %r" % (i, how, gv, val)]
        if not gt or abs(gt[0] - ft) > 1e-9 * max(1.0, abs(ft)):
            return ["step %d, %s set by cv colvar xi cvcflags: cv colvar xi gettotalforce returns %r; the engine's forces on the active components give "
                    "sum c f / sum c^2 = %r (a variable configured with only these components reports that)" % (i, how, gt, ft)]
        ev = vals(out, st["engine"], "ft")
        if ev is None or abs(ev[0] - ft) > 1e-9 * max(1.0, abs(ft)):
            return ["step %d, %s: the module's own total force of xi is %r, expected %r" % (i, how, ev, ft)]
    return []


def callback_oracle(cb, out):
    for i, st in enumerate(cb["steps"]):
        x = st["x"]; w = cb["w"]
        e = 0.5 * cb["k"] / (w * w) * (x - cb["c"]) ** 2 + cb["es"]
        f = -cb["k"] / (w * w) * (x - cb["c"]) + cb["fs"]
        if cb["two"]:
            e += 1.5 / w * (x - 0.25); f += -1.5 / w
        how = "callback %s the built-in biases, smp %s" % ("after" if cb["after"] else "before", cb["smp"])
        rc = out.get((st["step"], "rc", 1))
        if rc != ["i0"]:
            return ["step %d with a force callback (%s) failed" % (i, how)]
        ev = vals(out, st["step"], "energy")
        if ev is None or abs(ev[0] - e) > 1e-9 * max(1.0, abs(e)):
            return ["step %d (%s): the engine was handed the energy %r; built-in biases + the energy added by `cv addenergy` give %r (the scripted bias adds %r)"
                    % (i, how, ev, e, cb["es"])]
        fv = vals(out, st["forces"], "f0")
        if fv is None or abs(fv[2] - f) > 1e-9 * max(1.0, abs(f)):
            return ["step %d (%s): the atom got the z-force %r; built-in biases + `cv colvar x0 addforce` give %r" % (i, how, fv, f)]
        r = out.get((st["q"], "res", 1)) or out.get((st["q"], "result", 1))
    return []


def distribution(cases):
    d = {"commands": 0, "steps": 0}
    for c in cases:
        d["commands"] += sum(1 for l in c["lines"] if l.startswith("m.script"))
        d["steps"] += sum(1 for l in c["lines"] if l == "m.step")
    return d


def vals(out, ln, tag):
    v = out.get((ln, tag, 1))
    return None if v is None else [tok_val(t)[1] for t in v]


def unesc(s):
    return s.replace("\\s", " ").replace("\\n", "\n").replace("\\t", "\t").replace("\\\\", "\\")


def nums(s):
    return [float(x) for x in re.findall(r"[-+]?(?:\d+\.?\d*|\.\d+)(?:[eE][-+]?\d+)?", s)]


def oracle(case, out):
    """numbers returned by script queries = the numbers the module hands to the engine at that step"""
    viol = []
    L = case["lines"]
    if case["meta"].get("callback"):
        return callback_oracle(case["meta"]["callback"], out)
    if case["meta"].get("flags"):
        return flags_oracle(case["meta"]["flags"], out)
    if case["meta"].get("stateorder"):
        return stateorder_oracle(case["meta"]["stateorder"], out)
    if case["meta"].get("objects"):
        return objects_oracle(case["meta"]["objects"], out)
    # translator cross-check: the regenerated table equals the table of the running library
    for i, line in enumerate(L, 1):
        if line == "s.table":
            t_impl = out.get((i, "table", 1));
            if t_impl is not None:
                want = ["s%s:%d:%d" % c for c in table()]
                if sorted(t_impl) != sorted(want):
                    viol.append("the command table regenerated from the source differs from the table of the running library")
    for (ln, ncv_e, nb_e, what) in case["meta"].get("expect_counts", []):
        ncv = vals(out, ln, "ncv"); nb = vals(out, ln, "nb")
        if ncv is None or nb is None or ncv[0] != ncv_e or nb[0] != nb_e:
            viol.append("after %s the module has %r variables and %r biases; the same text read as engine-side configuration gives %d and %d"
                        % (what, ncv, nb, ncv_e, nb_e))
            return viol
    for q in case["meta"]["queries"]:
        rc = vals(out, q["value"], "rc")
        if rc is None:
            return viol + ["script query produced no result"]
        if vals(out, q["step"], "rc") != [0]:
            continue          # the engine step itself failed (e.g. every component of a variable switched off by cvcflags): nothing was handed to the engine
        if q["have_d"] and rc[0] == 0:
            xv = vals(out, q["d"], "x")
            res = vals(out, q["value"], "res")
            if xv and isinstance(xv[0], float) and res:
                v = nums(unesc(res[0]))
                if not v or abs(v[0] - xv[0]) > 1e-10 * max(1.0, abs(xv[0])):
                    viol.append("cv colvar d value returns %r, the module holds %r" % (res[0][:40], xv[0]))
            # applied force via script vs internal
            fa = vals(out, q["d"], "fa"); r3 = vals(out, q["af"], "res")
            if fa and r3 and isinstance(fa[0], float):
                v = nums(unesc(r3[0]))
                if not v or abs(v[0] - fa[0]) > 1e-10 * max(1.0, abs(fa[0])):
                    viol.append("cv colvar d getappliedforce returns %r, the module applies %r" % (r3[0][:40], fa[0]))
            # gradients via script times applied force = the atomic forces handed to the engine (atoms 0..2 belong only to d)
            rg = vals(out, q["grad"], "res"); rcg = vals(out, q["grad"], "rc")
            if rg and rcg and rcg[0] == 0 and fa and isinstance(fa[0], float):
                g = nums(unesc(rg[0]))
                if len(g) == 9:
                    for a in range(3):
                        fe = vals(out, q["forces"], "f%d" % a)
                        if fe is None:
                            continue
                        for c3 in range(3):
                            exp = fa[0] * g[3 * a + c3]
                            if abs(exp - fe[c3]) > 1e-8 * max(1.0, abs(fe[c3])):
                                viol.append("cv colvar d getgradients: applied force x gradient of atom %d gives %r, the engine receives %r" % (a + 1, exp, fe[c3]))
                                return viol
        # atom applied forces via script vs engine arrays
        ra = vals(out, q["atomf"], "res"); rca = vals(out, q["atomf"], "rc"); rid = vals(out, q["ids"], "res")
        if ra and rca and rca[0] == 0 and rid:
            ids = [int(x) for x in nums(unesc(rid[0]))]
            f = nums(unesc(ra[0]))
            if len(f) == 3 * len(ids):
                for j, aid in enumerate(ids):
                    fe = vals(out, q["forces"], "f%d" % aid)
                    if fe is None:
                        continue
                    for c3 in range(3):
                        if abs(f[3 * j + c3] - fe[c3]) > 1e-8 * max(1.0, abs(fe[c3])):
                            viol.append("cv getatomappliedforces reports %r for atom id %d, the engine receives %r" % (f[3 * j:3 * j + 3], aid, fe))
                            return viol
        # energy
        re_ = vals(out, q["energy"], "res"); en = vals(out, q["step"], "energy")
        if re_ and en and vals(out, q["energy"], "rc") == [0]:
            v = nums(unesc(re_[0]))
            # printed with the default 6 significant digits
            if v and abs(v[0] - en[0]) > 6e-6 * max(1e-3, abs(en[0])):
                viol.append("cv getenergy returns %r, the engine was given %r" % (v[0], en[0]))
    return viol


def extra(rep, tier, rng):
    """memcheck: command bodies that hand user strings to the C++ standard library (operator>> into a buffer) are invisible to
    AddressSanitizer, because the store happens inside the uninstrumented libstdc++; valgrind sees them"""
    exe = cvbuild.build_harness("rel")
    work = os.path.join(cvbuild.CACHE, "c20-vg-%d" % os.getpid())
    os.makedirs(work, exist_ok=True)
    n = 3 if tier == "quick" else 40
    runs = errs = 0
    try:
        cases = gen(rng, "quick")[:n] if n <= 20 else gen(rng, "thorough")[:n]
        for k, c in enumerate(cases):
            f = os.path.join(work, "v%d.txt" % k)
            open(f, "w").write("\n".join(c["lines"]) + "\n")
            p = subprocess.run(["valgrind", "-q", "--error-exitcode=97", "--errors-for-leak-kinds=none", exe, f], stdout=subprocess.PIPE,
                               stderr=subprocess.PIPE, text=True, errors="replace", timeout=1800)
            runs += 1
            if p.returncode == 97 or "Invalid write" in p.stderr or "Invalid read" in p.stderr:
                errs += 1
                first = "\n".join(l for l in p.stderr.splitlines() if l.startswith("=="))[:2500]
                rep.violation("memcheck reports an invalid memory access while script commands run (case %d): %s" % (k, first.splitlines()[0] if first else ""),
                              "#! run under valgrind: valgrind -q .cache/cvharness-rel <this file>\n#! " + first.replace("\n", "\n#! ") + "\n" + "\n".join(c["lines"]) + "\n",
                              "memcheck_%d_seed%d" % (k, rep.seed), found_input=True)
                break
            if p.returncode != 0:
                rep.violation("the library died under memcheck (status %d, case %d)" % (p.returncode, k), "\n".join(c["lines"]) + "\n",
                              "memcheck_crash_%d_seed%d" % (k, rep.seed), found_input=True)
                break
    finally:
        import shutil
        shutil.rmtree(work, ignore_errors=True)
    rep.extra["memcheck"] = {"runs": runs, "errors": errs}
