"""C05 — the metadynamics bias is the sum of the hills deposited on schedule."""
import math
from cvlib import fbits, bits_to_f, tok_val
from cvscen import inj_cv, cfg, pos, tf, num

KB = 0.001987191   # colvarproxy boltzmann() in the "real" unit system
RULE = ("metadynamics on 1-2 injected scalar variables (periodic or not), with and without grids, hill frequency 1-4, grid "
        "frequency equal to or a multiple of it, hillWidth or gaussianSigmas, keepHills, well-tempered, expandBoundaries; "
        "trajectories are random walks with excursions beyond the grid boundaries, repeated steps, and a first step that is not 0 (half of the cases); "
        "non-trivial = at least two hills deposited; distinct by op text")
FINDINGS_ARE_MODELLED = True     # CvModel/Meta.lean reproduces the listed gaussianSigmas buffer behaviour exactly
ASSUMPTIONS = ["Gaussians are truncated to zero when the exponent sum exceeds 23 (the code's documented 1e-5 cut): part of the specification used"]


def gen(rng, tier):
    n = 40 if tier == "quick" else 500
    cases = []
    for k in range(n):
        nd = [1, 1, 2][k % 3]
        use_grids = (k % 4) != 3
        wt = (k % 5) == 2
        keep = use_grids and (k % 3) == 1
        lo, hi, w, per, wc, expand = [], [], [], [], [], []
        conf = ""
        for i in range(nd):
            wi = rng.choice([0.25, 0.5])
            l = rng.dyadic(-2, 2, 2)
            nb = rng.randint(6, 12) if nd == 1 else rng.randint(4, 7)
            h = l + nb * wi
            P = 0.0; c = 0.0
            if rng.rand() < 0.25:
                P = nb * wi; c = l + P / 2
            ex = (not P) and use_grids and rng.rand() < 0.3
            lo.append(l); hi.append(h); w.append(wi); per.append(P); wc.append(c); expand.append(ex)
            conf += inj_cv("x%d" % i, i, l, h, wi, P if P else None, c if P else None,
                           extra="  expandBoundaries on\n" if ex else "")
        names = " ".join("x%d" % i for i in range(nd))
        freq = rng.randint(1, 4)
        gf = freq * rng.choice([1, 1, 2, 3]) if use_grids else 0
        weight = rng.choice([0.1, 0.5, 1.0])
        use_sig = (k % 6) == 4
        hw = rng.choice([1.0, 2.0, 2.5, 3.0])
        sig = [rng.choice([1.0, 1.5]) * w[i] for i in range(nd)] if use_sig else [w[i] * hw / 2.0 for i in range(nd)]
        btemp = rng.choice([300.0, 1000.0, 3000.0])
        body = " name mt\n colvars %s\n hillWeight %s\n newHillFrequency %d\n" % (names, num(weight), freq)
        body += (" gaussianSigmas %s\n" % " ".join(num(x) for x in sig)) if use_sig else (" hillWidth %s\n" % num(hw))
        if not use_grids:
            body += " useGrids off\n"
        else:
            if gf != freq:
                body += " gridsUpdateFrequency %d\n" % gf
            if keep:
                body += " keepHills on\n"
        if wt:
            body += " wellTempered on\n biasTemperature %s\n" % num(btemp)
        mconf = "metadynamics {\n%s}\n" % body
        lines = ["m.new %d" % nd, cfg(conf), cfg(mconf)]
        # the engine's first step need not be 0 (a run continued by the engine, or a state loaded at that step)
        it0 = 0 if (k % 2) == 0 else rng.randint(1, 3 * max(freq, gf) + 2)
        if it0:
            lines.append("m.opt it %d" % it0)
        lines += ["M.cv x%d %d %s %s %s 0" % (i, i, fbits(w[i]), fbits(per[i]), fbits(wc[i])) for i in range(nd)]

        def fl(l_):
            return ",".join(fbits(x) for x in l_)
        lines.append("M.meta mt %d %s weight=%s freq=%d sigmas=%s hillwidth=%s grids=%d gridsfreq=%d keephills=%d wt=%d tkb=%s lo=%s hi=%s expand=%s gper=%s" % (
            nd, names, fbits(weight), freq, fl(sig), fbits(0.0 if use_sig else hw), 1 if use_grids else 0, gf, 1 if keep else 0,
            1 if wt else 0, fbits(btemp * KB), fl(lo), fl(hi), ",".join("1" if e else "0" for e in expand),
            ",".join("1" if p_ else "0" for p_ in per)))
        nsteps = rng.randint(10, 30) if tier == "quick" else rng.randint(10, 80)
        cur = [rng.uniform(lo[i] + w[i], hi[i] - w[i]) for i in range(nd)]
        hist = []
        for s_ in range(nsteps):
            cont = s_ > 0 and rng.rand() < 0.08
            if not cont:
                for i in range(nd):
                    r = rng.rand()
                    if r < 0.75:
                        cur[i] += rng.uniform(-1.2, 1.2) * w[i]
                    elif r < 0.9:
                        cur[i] = rng.choice([lo[i], hi[i]]) + rng.uniform(-2.5, 1.0) * w[i] * rng.choice([1, -1])
                    else:
                        cur[i] = lo[i] + rng.randint(-1, int(round((hi[i] - lo[i]) / w[i])) + 1) * w[i] + rng.choice([0.0, 0.5 * w[i]])
                    lines.append(pos(i, rng.uniform(-1, 1), rng.uniform(-1, 1), cur[i]))
            lines.append("m.step cont" if cont else "m.step")
            step_line = len(lines)
            lines.append("m.bias mt")
            for i in range(nd):
                lines.append("m.cv x%d fa" % i)
            hist.append({"x": list(cur), "cont": cont, "line": step_line})
            if rng.rand() < 0.15:
                lines.append("mt.dump mt")
        lines.append("mt.dump mt")
        cases.append({"lines": lines, "meta": {"nd": nd, "grids": use_grids, "wt": wt, "keep": keep, "lo": lo, "hi": hi, "w": w, "period": per,
                                                "wrap": wc, "expand": expand, "freq": freq, "gf": gf, "weight": weight, "sig": sig,
                                                "hw": 0.0 if use_sig else hw, "tkb": btemp * KB, "history": hist, "it0": it0},
                      "nontrivial": nsteps > 2 * freq})
    return cases + gen_rebin(rng, tier)


def gen_rebin(rng, tier):
    """a state with kept hills read by a bias set up over a narrower grid (rebinGrids on): the bias is still the sum of all hills, at
    bin centres of the NEW grid inside it and analytically outside it"""
    import os, cvbuild
    work = os.path.join(cvbuild.CACHE, "c05-scratch"); os.makedirs(work, exist_ok=True)
    cases = []
    for k in range(6 if tier == "quick" else 60):
        w = rng.choice([0.25, 0.5]); hw = rng.choice([1.0, 2.0]); freq = rng.randint(1, 3); weight = rng.choice([0.2, 0.5])
        # in a third of the cases the second run is configured with wider hills: the hills read from the state keep the width they were deposited with
        hw2 = 2.0 * hw if k % 3 == 1 else hw
        nb = rng.randint(24, 32) + (12 if hw2 > 2.0 else 0); lo = rng.dyadic(-4, -2, 1); hi = lo + nb * w
        cut_lo = rng.randint(3 * int(hw2) + 3, 3 * int(hw2) + 6) if k % 3 != 2 else 0       # the new grid is narrower on one or both sides
        cut_hi = rng.randint(3 * int(hw2) + 3, 3 * int(hw2) + 6) if k % 4 != 1 else 0
        lo2, hi2 = lo + cut_lo * w, hi - cut_hi * w
        def mconf(rebin):
            return ("metadynamics {\n name mt\n colvars x0\n hillWeight %s\n newHillFrequency %d\n hillWidth %s\n keepHills on\n%s}\n"
                    % (num(weight), freq, num(hw2 if rebin else hw), " rebinGrids on\n" if rebin else ""))
        pfx = os.path.join(work, "rb%d" % k)
        lines = ["m.new 1", "M.noclock", cfg(inj_cv("x0", 0, lo, hi, w)), cfg(mconf(False))]
        hist = []
        # run 1: hills all over the old grid, many of them near the future boundaries
        n1 = rng.randint(12, 20) * freq
        for s_ in range(n1 + 1):
            r = rng.rand()
            if r < 0.4 and cut_lo:
                x = lo2 + rng.uniform(-2.5, 2.5) * w
            elif r < 0.8 and cut_hi:
                x = hi2 + rng.uniform(-2.5, 2.5) * w
            else:
                x = rng.uniform(lo + w, hi - w)
            lines += [pos(0, 0.0, 0.0, x), "m.step"]
            hist.append({"x": x, "run": 1, "line": len(lines)})
            lines += ["m.bias mt", "m.cv x0 fa"]
        lines.append("m.save %s" % pfx)
        lines += ["m.new 1", "M.noclock", cfg(inj_cv("x0", 0, lo2, hi2, w)), cfg(mconf(True)), "m.load %s" % pfx]
        loadl = len(lines)
        n2 = rng.randint(10, 18)
        for s_ in range(n2 + 1):
            r = rng.rand()
            if s_ == 0:
                x = hist[-1]["x"]             # the stop step, repeated
            elif r < 0.35 and cut_lo:
                x = lo2 - rng.uniform(0.05, 2.0) * w           # outside the new grid, next to hills of run 1
            elif r < 0.7 and cut_hi:
                x = hi2 + rng.uniform(0.05, 2.0) * w
            else:
                x = rng.uniform(lo2 + w, hi2 - w)
            lines += [pos(0, 0.0, 0.0, x), "m.step"]
            hist.append({"x": x, "run": 2, "line": len(lines), "first": s_ == 0})
            lines += ["m.bias mt", "m.cv x0 fa"]
        cases.append({"lines": lines, "meta": {"family": "rebin", "w": w, "hw": hw, "hw2": hw2, "freq": freq, "weight": weight, "lo": lo, "hi": hi, "lo2": lo2, "hi2": hi2,
                                               "history": hist, "load": loadl, "grids": True, "nd": 1, "wt": False, "keep": True, "period": [0.0], "expand": [False],
                                               "sig": [w * hw / 2.0]}, "nontrivial": True})
    return cases


def oracle_rebin(case, out):
    m = case["meta"]; w = m["w"]
    sig1 = w * m["hw"] / 2.0; sig2 = w * m.get("hw2", m["hw"]) / 2.0
    rc = out.get((m["load"], "rc", 1))
    if rc != ["i0"]:
        return [(None, "a state with kept hills could not be read by a bias with rebinGrids on and a narrower grid")]
    hills = []

    def g(c, x):
        s = ((x - c[0]) / c[1]) ** 2
        return 0.0 if s > 23.0 else math.exp(-0.5 * s)
    it = 0; first = True; rel = 0
    for h in m["history"]:
        lo, hi = (m["lo"], m["hi"]) if h["run"] == 1 else (m["lo2"], m["hi2"])
        if first:
            first = False
        elif h.get("first"):
            rel = 0                         # the stop step repeated as step 0 of the new run: no deposition
        else:
            it += 1; rel += 1
        x = h["x"]
        if rel > 0 and it % m["freq"] == 0:
            hills.append((x, sig1 if h["run"] == 1 else sig2))
        nb = int(math.floor((hi - lo) / w + 0.5)); b = int(math.floor((x - lo) / w))
        inside = 0 <= b < nb
        xe = lo + w * (b + 0.5) if inside else x
        e_exp = sum(m["weight"] * g(c, xe) for c in hills)
        f_exp = sum(m["weight"] * g(c, xe) * (xe - c[0]) / c[1] ** 2 for c in hills)
        e = vals(out, h["line"] + 1, "e"); fa = vals(out, h["line"] + 2, "fa")
        if e is None or fa is None:
            return [(None, "no energy / force reported at step %d" % it)]
        scale = max(1e-3, m["weight"] * len(hills))
        where = "%s the %s grid [%r, %r)" % ("inside" if inside else "outside", "old" if h["run"] == 1 else "new, narrower", lo, hi)
        if abs(e[0] - e_exp) > 2e-5 * scale:
            return [(None, "step %d, run %d (%s, kept hills rebinned after the restart): metadynamics energy %r, the sum of all %d hills gives %r" % (it, h["run"], where, e[0], len(hills), e_exp))]
        if abs(fa[0] - f_exp) > 2e-5 * scale / min(sig1, sig2) + 1e-9:
            return [(None, "step %d, run %d (%s, kept hills rebinned after the restart): metadynamics force %r, minus the gradient of the sum of all %d hills gives %r" % (it, h["run"], where, fa[0], len(hills), f_exp))]
    return []


def distribution(cases):
    d = {"nd": {}, "first_step_nonzero": sum(1 for c in cases if c["meta"].get("it0")), "grids": 0, "wt": 0, "keepHills": 0, "periodic": 0, "expand": 0, "gaussianSigmas": 0, "steps": 0, "offgrid_steps": 0}
    for c in cases:
        m = c["meta"]
        if m.get("family") == "rebin":
            d["rebin"] = d.get("rebin", 0) + 1; d["steps"] += len(m["history"]); continue
        if "nd" not in m:
            continue
        d["nd"][m["nd"]] = d["nd"].get(m["nd"], 0) + 1
        d["grids"] += int(m["grids"]); d["wt"] += int(m["wt"]); d["keepHills"] += int(m["keep"]); d["periodic"] += int(any(m["period"]))
        d["expand"] += int(any(m["expand"])); d["gaussianSigmas"] += int(m["hw"] == 0.0); d["steps"] += len(m["history"])
        for h in m["history"]:
            if any(not (m["lo"][i] <= h["x"][i] < m["hi"][i]) for i in range(m["nd"])):
                d["offgrid_steps"] += 1
    return d


def vals(out, ln, tag):
    v = out.get((ln, tag, 1))
    return None if v is None else [tok_val(t)[1] for t in v]


def oracle(case, out):
    """analytic sum of the hills deposited on schedule; with grids, tabulated hills contribute their analytic value at the
    centre of the current bin, untabulated ones at the position, and outside the grid all hills analytically"""
    m = case["meta"]; viol = []
    if m.get("family") == "rebin":
        return oracle_rebin(case, out)
    nd = m["nd"]
    lo = list(m["lo"]); w = m["w"]
    nx = [int(math.floor((m["hi"][i] - lo[i]) / w[i] + 0.5)) for i in range(nd)]
    mb = 3 * int(math.floor(m["hw"])) + 1

    def wrapx(i, x):
        if m["period"][i]:
            P, c = m["period"][i], m["wrap"][i]
            return x - math.floor((x - c) / P + 0.5) * P
        return x

    def pd(i, a, b):
        d = a - b
        if m["period"][i]:
            P = m["period"][i]; d -= math.floor(d / P + 0.5) * P
        return d

    def gauss(h, xs):
        s = sum((pd(i, xs[i], h["c"][i]) / m["sig"][i]) ** 2 for i in range(nd))
        return 0.0 if s > 23.0 else math.exp(-0.5 * s)

    def esum(hs, xs):
        return sum(h["W"] * gauss(h, xs) for h in hs)

    def fsum(hs, xs, i):
        return sum(h["W"] * gauss(h, xs) * pd(i, xs[i], h["c"][i]) / m["sig"][i] ** 2 for h in hs)

    projected, pending = [], []
    it0 = m.get("it0", 0)
    it = it0; first = True
    for h in m["history"]:
        if first:
            first = False; cont = False
        elif h["cont"]:
            cont = True
        else:
            it += 1; cont = False
        xs = [wrapx(i, h["x"][i]) for i in range(nd)]
        # grid expansion
        if m["grids"]:
            b = [int(math.floor((xs[i] - lo[i]) / w[i])) for i in range(nd)]
            for i in range(nd):
                if m["expand"][i]:
                    if b[i] < mb:
                        ex = mb - b[i]; lo[i] -= ex * w[i]; nx[i] += ex; b[i] += ex
                    if b[i] > nx[i] - mb - 1:
                        nx[i] += b[i] - (nx[i] - 1) + mb
        b = [int(math.floor((xs[i] - lo[i]) / w[i])) for i in range(nd)] if m["grids"] else None
        inside = m["grids"] and all(0 <= b[i] < nx[i] for i in range(nd))
        elig = it > it0 and not cont
        if elig and it % m["freq"] == 0:
            W = m["weight"]
            if m["wt"]:
                if m["grids"] and inside:
                    ctr = [lo[i] + w[i] * (0.5 + b[i]) for i in range(nd)]
                    V = esum(projected, ctr) + esum(pending, xs)
                else:
                    V = esum(projected + pending, xs)
                W *= math.exp(-V / m["tkb"])
            pending.append({"c": xs, "W": W, "it": it})
        if m["grids"] and it % m["gf"] == 0:
            projected += pending; pending = []
        if m["grids"] and inside:
            ctr = [lo[i] + w[i] * (0.5 + b[i]) for i in range(nd)]
            e_exp = esum(projected, ctr) + esum(pending, xs)
            f_exp = [fsum(projected, ctr, i) + fsum(pending, xs, i) for i in range(nd)]
        else:
            e_exp = esum(projected + pending, xs)
            f_exp = [fsum(projected + pending, xs, i) for i in range(nd)]
        ln = h["line"]
        e = vals(out, ln + 1, "e")
        if e is None:
            return ["no energy reported"]
        scale = max(1e-3, sum(hh["W"] for hh in projected + pending))
        if abs(e[0] - e_exp) > 2e-5 * scale:
            where = "inside the grid" if inside else ("outside the grid" if m["grids"] else "no grids")
            sig = None
            if m["grids"] and m["hw"] == 0.0 and (not inside or any(m["expand"])):
                # same root cause for bins added by expandBoundaries: the buffer is 3*floor(hill_width)+1 = 1 bin
                sig = "gaussianSigmas: off-grid energy omits hills farther than one bin from the boundary"
            viol.append((sig, "step %d (%s): metadynamics energy %r, the sum of the hills deposited on schedule gives %r" % (it, where, e[0], e_exp)))
            return viol
        for i in range(nd):
            fa = vals(out, ln + 2 + i, "fa")
            if fa is None or abs(fa[0] - f_exp[i]) > 2e-5 * scale / m["sig"][i] + 1e-9:
                sig = None
                if m["grids"] and m["hw"] == 0.0 and (not inside or any(m["expand"])):
                    # the listed finding shows in the force as well as in the energy
                    sig = "gaussianSigmas: off-grid energy omits hills farther than one bin from the boundary"
                viol.append((sig, "step %d (%s): metadynamics force on variable %d is %r, minus the gradient of the hill sum gives %r"
                             % (it, "inside the grid" if inside else "outside the grid", i, fa, f_exp[i])))
                return viol
    return viol
