"""C16 — PMF integration solves the stated discrete problem; incremental equals batch."""
import itertools, math
from cvlib import fbits, tok_val, bits_to_f

RULE = ("gradient grids built directly (1-3 dimensions, 2-7 bins per dimension, every periodic / non-periodic mix, anisotropic widths, "
        "smoothed and unsmoothed averages with minSamples/fullSamples ramps): (a) 1-D surfaces after random sample arrival; "
        "(b) 2-D / 3-D divergence after 10-80 samples arriving in random order and multiplicity, dumped incrementally and recomputed, "
        "and again for a shuffled arrival order; (c) the Laplacian on random vectors; (d) the conjugate-gradient solver on consistent "
        "right-hand sides; (e) the full integration of gradients sampled from smooth surfaces, at two resolutions; "
        "non-trivial = at least two bins sampled more than once; distinct by op text")
ASSUMPTIONS = ["second-order convergence is a numerical observation of the oracle (error ratio between two resolutions), not a theorem",
               "floating-point rounding is not modelled: model and implementation are compared at 1e-9 relative"]
COMPARE = {"tol_by_tag": {"div": (1e-9, 1e-9), "F": (1e-9, 1e-10), "LA": (1e-9, 1e-9), "x": (1e-6, 1e-8)}}


def num(x):
    return fbits(x)


# ---------------------------------------------------------------- independent reference
def inv_weight(sm, mn, full, w):
    if sm:
        if w <= mn:
            return 0.0
        if w < full:
            return (w - mn) / (w * float(full - mn))
        return 1.0 / w
    return 1.0 / w if w > 0 else 0.0


class Ref:
    """textbook statement of what the grids hold"""
    def __init__(s, nx, w, per, mn, full, sm):
        s.nx, s.w, s.per, s.mn, s.full, s.sm = nx, w, per, mn, full, sm
        s.nd = len(nx)
        s.sum = {}; s.cnt = {}
        s.pnx = [n if p else n + 1 for n, p in zip(nx, per)]

    def acc(s, ix, f):
        k = tuple(ix)
        v = s.sum.get(k, [0.0] * s.nd)
        s.sum[k] = [a - b for a, b in zip(v, f)]
        s.cnt[k] = s.cnt.get(k, 0) + 1

    def set(s, ix, c, v):
        s.sum[tuple(ix)] = list(v); s.cnt[tuple(ix)] = c

    def grad(s, ix):
        j = []
        for d in range(s.nd):
            i = ix[d]
            if s.per[d]:
                i %= s.nx[d]
            elif i < 0 or i >= s.nx[d]:
                return [0.0] * s.nd
            j.append(i)
        k = tuple(j)
        f = inv_weight(s.sm, s.mn, s.full, s.cnt.get(k, 0))
        return [f * x for x in s.sum.get(k, [0.0] * s.nd)]

    def points(s):
        return list(itertools.product(*[range(n) for n in s.pnx]))

    def div(s, p):
        tot = 0.0
        for d in range(s.nd):
            t = 0.0
            for c in itertools.product((-1, 0), repeat=s.nd):
                g = s.grad([a + b for a, b in zip(p, c)])[d]
                t += g if c[d] == 0 else -g
            tot += t / s.w[d]
        return tot * 0.5 ** (s.nd - 1)

    def lap(s, A):
        """A: dict point -> value"""
        out = {}
        for p in s.points():
            tot = 0.0
            for d in range(s.nd):
                fact = 1.0
                for e in range(s.nd):
                    if e != d and not s.per[e] and (p[e] == 0 or p[e] == s.pnx[e] - 1):
                        fact *= 0.5
                n = s.pnx[d]
                def sh(k):
                    q = list(p); q[d] += k
                    if s.per[d]:
                        q[d] %= n
                    return tuple(q)
                if s.per[d]:
                    st = A[sh(-1)] + A[sh(1)] - 2 * A[p]
                elif p[d] == 0:
                    st = A[sh(1)] - A[p]
                elif p[d] == n - 1:
                    st = A[sh(-1)] - A[p]
                else:
                    st = A[sh(-1)] + A[sh(1)] - 2 * A[p]
                tot += fact * st / (s.w[d] * s.w[d])
            out[p] = tot
        return out


def new_line(nx, w, per, mn, full, sm):
    return "i.new %d %s %s %s %d %d %d" % (len(nx), " ".join(map(str, nx)), " ".join(num(x) for x in w), " ".join(str(int(p)) for p in per), mn, full, int(sm))


def shape(rng, nd):
    hi = {1: 12, 2: 6, 3: 4}[nd]
    nx = [rng.randint(2, hi) for _ in range(nd)]
    per = [rng.rand() < 0.5 for _ in range(nd)]
    w = [rng.choice([0.1, 0.25, 0.5, 1.0, 2.0, 7.5]) for _ in range(nd)]
    return nx, w, per


def gen(rng, tier):
    cases = []
    n = 12 if tier == "quick" else 120
    # (a) 1-D
    for k in range(n):
        nx, w, per = shape(rng, 1)
        per = [k % 2 == 0]
        sm = k % 3 == 0
        mn, full = (rng.randint(0, 2), rng.randint(3, 6)) if sm else (0, 0)
        L = [new_line(nx, w, per, mn, full, sm)]
        ref = Ref(nx, w, per, mn, full, sm)
        ns = rng.randint(nx[0], 6 * nx[0])
        for _ in range(ns):
            ix = [rng.randint(0, nx[0] - 1)]
            f = [rng.uniform(-3, 3)]
            L.append("i.acc %d %s" % (ix[0], num(f[0]))); ref.acc(ix, f)
        L.append("i.int1 %d" % int(sm))
        cases.append({"lines": L, "aux": {"ref": ref}, "meta": {"kind": "1d", "per": per[0], "dump": len(L), "sm": sm}, "nontrivial": True})
    # (b) divergence: incremental vs batch, two arrival orders
    for k in range(2 * n):
        nd = 2 if k % 3 else 3
        nx, w, per = shape(rng, nd)
        if k < 8:
            per = [bool(k & 1), bool(k & 2)] + ([bool(k & 4)] if nd == 3 else [])
        sm = k % 4 == 1
        mn, full = (rng.randint(0, 2), rng.randint(3, 5)) if sm else (0, 0)
        ref = Ref(nx, w, per, mn, full, sm)
        ns = rng.randint(10, 80 if nd == 2 else 50)
        smp = []
        for _ in range(ns):
            ix = [rng.randint(0, a - 1) for a in nx]
            if smp and rng.rand() < 0.3:
                ix = list(rng.choice(smp)[0])
            smp.append((ix, [rng.uniform(-3, 3) for _ in range(nd)]))
        L = [new_line(nx, w, per, mn, full, sm)]
        for ix, f in smp:
            L.append("i.acc %s %s" % (" ".join(map(str, ix)), " ".join(num(x) for x in f))); ref.acc(ix, f)
        L.append("i.div"); d1 = len(L)
        L.append("i.setdiv"); d2 = len(L)
        sh = list(smp); rng.shuffle(sh)
        L.append(new_line(nx, w, per, mn, full, sm))
        for ix, f in sh:
            L.append("i.acc %s %s" % (" ".join(map(str, ix)), " ".join(num(x) for x in f)))
        L.append("i.div"); d3 = len(L)
        cases.append({"lines": L, "aux": {"ref": ref}, "meta": {"kind": "div", "inc": d1, "batch": d2, "shuffled": d3, "nd": nd, "per": per, "nsamples": ns},
                      "nontrivial": True})
    # (c) Laplacian, (d) solver
    for k in range(n):
        nd = 2 if k % 2 == 0 else 3
        nx, w, per = shape(rng, nd)
        if k < 8:
            per = [bool(k & 1), bool(k & 2)] + ([bool(k & 4)] if nd == 3 else [])
        ref = Ref(nx, w, per, 0, 0, False)
        pts = ref.points()
        L = [new_line(nx, w, per, 0, 0, False)]
        xs = [rng.uniform(-2, 2) for _ in pts]; ys = [rng.uniform(-2, 2) for _ in pts]
        L.append("i.atimes " + " ".join(num(v) for v in xs)); lx = len(L)
        L.append("i.atimes " + " ".join(num(v) for v in ys)); ly = len(L)
        L.append("i.atimes " + " ".join(num(1.75) for _ in pts)); lc = len(L)
        # consistent right-hand side: the Laplacian of a known field
        b = ref.lap(dict(zip(pts, xs)))
        tol = rng.choice([1e-3, 1e-6, 1e-9])
        L.append("i.cg %s %d %s" % (num(tol), rng.choice([5, 50, 300]), " ".join(num(b[p]) for p in pts))); lcg = len(L)
        cases.append({"lines": L, "aux": {"ref": ref, "x": xs, "y": ys, "b": [b[p] for p in pts]}, "meta": {"kind": "lap", "lx": lx, "ly": ly, "lc": lc, "lcg": lcg,
                                            "tol": tol, "nd": nd, "per": per}, "nontrivial": True})
    # (f) the divergence maintained inside a 2-D ABF bias, with and without a stop / resume in the middle
    import os, cvbuild
    from cvscen import inj_cv, cfg, pos, tf
    work = os.path.join(cvbuild.CACHE, "c16-scratch"); os.makedirs(work, exist_ok=True)
    for k in range(4 if tier == "quick" else 40):
        nb = [rng.randint(3, 5), rng.randint(3, 5)]
        wv = [0.5, 0.25]
        lo = [-1.0, 0.0]
        conf = inj_cv("x0", 0, lo[0], lo[0] + nb[0] * wv[0], wv[0]) + inj_cv("x1", 1, lo[1], lo[1] + nb[1] * wv[1], wv[1])
        abf = "abf {\n name b\n colvars x0 x1\n fullSamples 2\n}\n"
        same = k % 2 == 0
        N = rng.randint(20, 50)
        K = rng.randint(5, N - 5) if k % 4 < 3 else -1
        head = ["m.new 2", "M.noclock", "m.opt tf_same %d" % int(same), cfg(conf), cfg(abf)]
        L = list(head)
        # a walk that visits a few bins before the stop and different ones after it
        for s_ in range(N):
            region = 0 if (K < 0 or s_ <= K) else 1
            xs = [lo[0] + wv[0] * (rng.uniform(0, nb[0] / 2.0) if region == 0 else rng.uniform(nb[0] / 2.0, nb[0])),
                  lo[1] + wv[1] * rng.uniform(0, nb[1])]
            for i in range(2):
                L.append(pos(i, 0.0, 0.0, xs[i])); L.append(tf(i, 0.0, 0.0, rng.uniform(-3, 3)))
            L.append("m.step")
            if s_ == K:
                pfx = os.path.join(work, "a%d" % k)
                L += ["m.save %s" % pfx] + head + ["m.load %s" % pfx]
                for i in range(2):
                    L.append(pos(i, 0.0, 0.0, xs[i])); L.append(tf(i, 0.0, 0.0, 0.0))
                L.append("m.step")
        L.append("a.dump b")
        cases.append({"lines": L, "meta": {"kind": "abf2d", "dump": len(L), "nx": nb, "w": wv, "K": K, "same": same}, "nontrivial": True})
    # (e) full integration of a smooth surface at two resolutions
    m = 3 if tier == "quick" else 24
    for k in range(m):
        nd = 2 if k % 3 else 3
        per = [bool((k >> d) & 1) for d in range(nd)]
        base = 6 if nd == 2 else 4
        Lbox = [2 * math.pi if p else 2.0 for p in per]
        amp = [rng.uniform(0.5, 1.5) for _ in range(nd)]
        def surf(x, amp=amp, per=per):
            return sum(a * (math.sin(xi) if p else math.sin(1.3 * xi) + 0.3 * xi * xi) for a, p, xi in zip(amp, per, x))
        def gradf(x, amp=amp, per=per):
            return [a * (math.cos(xi) if p else 1.3 * math.cos(1.3 * xi) + 0.6 * xi) for a, p, xi in zip(amp, per, x)]
        L = []; levels = []
        for ref_f in (1, 2):
            nx = [base * ref_f + (d % 2) * ref_f for d in range(nd)]
            w = [Lbox[d] / nx[d] for d in range(nd)]
            L.append(new_line(nx, w, per, 0, 0, False))
            for ix in itertools.product(*[range(a) for a in nx]):
                x = [(i + 0.5) * wd for i, wd in zip(ix, w)]
                L.append("i.set %s 1 %s" % (" ".join(map(str, ix)), " ".join(num(v) for v in gradf(x))))
            L.append("i.setdiv")
            L.append("i.integrate %s 2000" % num(1e-10))
            levels.append({"line": len(L), "nx": nx, "w": w})
        cases.append({"lines": L, "aux": {"surf": surf}, "meta": {"kind": "poisson", "levels": levels, "per": per, "nd": nd}, "nontrivial": True})
    return cases


def distribution(cases):
    d = {}
    for c in cases:
        m = c["meta"]
        key = m.get("kind", "corpus")
        d[key] = d.get(key, 0) + 1
        if "per" in m and m.get("kind") in ("div", "lap"):
            pk = "periodic_mix_" + "".join("p" if p else "n" for p in m["per"])
            d[pk] = d.get(pk, 0) + 1
    return d


def vals(out, ln, tag):
    v = out.get((ln, tag, 1))
    return None if v is None else [tok_val(t)[1] for t in v]


def close(a, b, rel=1e-9, ab=1e-9):
    return abs(a - b) <= ab + rel * max(abs(a), abs(b))


def oracle(case, out):
    m = dict(case["meta"]); m.update(case.get("aux", {})); kind = m.get("kind")
    viol = []
    # where the points of the surface sit: point j of every dimension at the lower edge of gradient bin j (gradients are bin averages,
    # the surface is their cumulative sum), for periodic and non-periodic dimensions alike
    for i, line in enumerate(case["lines"], 1):
        t = line.split()
        if t[0] == "i.new":
            nd = int(t[1]); nx = [int(x) for x in t[2:2 + nd]]; w = [bits_to_f(x) for x in t[2 + nd:2 + 2 * nd]]; per = [int(x) for x in t[2 + 2 * nd:2 + 3 * nd]]
            pc = vals(out, i, "pcoord")
            if pc is None:
                continue
            for d in range(nd):
                lo = -1.25 - 0.5 * d
                pn = nx[d] if per[d] else nx[d] + 1
                want = (lo, lo + (pn - 1) * w[d])
                got = (pc[2 * d], pc[2 * d + 1])
                if abs(got[0] - want[0]) > 1e-12 * max(1.0, abs(want[0])) or abs(got[1] - want[1]) > 1e-12 * max(1.0, abs(want[1])):
                    return ["the surface integrated from a gradient grid over [%r, %r) (%d bins of %r, %s dimension %d) reports its first and last points at %r "
                            "and %r; the edges of the gradient bins they belong to are %r and %r" % (lo, lo + nx[d] * w[d], nx[d], w[d],
                                                                                                  "periodic" if per[d] else "non-periodic", d, got[0], got[1], want[0], want[1])]
    if kind == "1d":
        ref = m["ref"]; F = vals(out, m["dump"], "F")
        if F is None:
            return ["no surface was produced"]
        n = ref.nx[0]; w = ref.w[0]
        g = [ref.grad([i])[0] for i in range(n)]
        if F[0] != 0.0:
            viol.append("the 1-D surface does not start at 0 (%r)" % F[0])
        if m["per"]:
            mean = sum(g) / n
            exp = [0.0]
            for i in range(n - 1):
                exp.append(exp[-1] + (g[i] - mean) * w)
            closing = exp[-1] + (g[n - 1] - mean) * w      # = 0 up to rounding: the surface is periodic
            if len(F) != n:
                return ["periodic 1-D surface has %d points for %d bins" % (len(F), n)]
            got_closing = F[n - 1] + (g[n - 1] - mean) * w
            scale = max(1.0, max(abs(x) for x in F))
            # periodicity: stepping over the last bin with the written surface's own increments returns to the start
            last_inc = None
            if n >= 2:
                # increments of the written surface
                incs = [F[i + 1] - F[i] for i in range(n - 1)]
                corr = [g[i] * w - incs[i] for i in range(n - 1)]         # correction actually removed per bin (times width)
                if max(corr) - min(corr) > 1e-9 * scale:
                    viol.append("the correction removed from the gradients is not the same in every bin")
                else:
                    back = F[n - 1] + (g[n - 1] * w - corr[0])
                    if abs(back - F[0]) > 1e-9 * scale * n:
                        viol.append(("periodic 1-D surface does not close",
                                     "the surface of a periodic variable is not periodic: continuing over the last bin gives %r instead of %r "
                                     "(mean gradient %r, removed %r per bin%s)" % (back, F[0], mean, corr[0] / w, ", smoothed gradients" if m["sm"] else "")))
        else:
            exp = [0.0]
            for i in range(n):
                exp.append(exp[-1] + g[i] * w)
            if len(F) != n + 1:
                return ["non-periodic 1-D surface has %d points for %d bins" % (len(F), n)]
            for i, (a, b) in enumerate(zip(F, exp)):
                if not close(a, b, 1e-9, 1e-10):
                    viol.append("1-D surface at point %d is %r, the cumulative sum of bin averages times width is %r" % (i, a, b)); break
        return viol
    if kind == "div":
        ref = m["ref"]
        a, b, c = vals(out, m["inc"], "div"), vals(out, m["batch"], "div"), vals(out, m["shuffled"], "div")
        if a is None or b is None or c is None:
            return ["divergence dump missing"]
        pts = ref.points()
        if len(a) != len(pts):
            return ["divergence has %d entries for %d grid points" % (len(a), len(pts))]
        scale = max(1.0, max(abs(x) for x in b))
        for i, p in enumerate(pts):
            if abs(a[i] - b[i]) > 1e-9 * scale:
                viol.append("divergence kept up to date incrementally differs from the one recomputed from the final gradients at point %r: %r vs %r" % (p, a[i], b[i])); break
            e = ref.div(p)
            if abs(b[i] - e) > 1e-9 * scale:
                viol.append("recomputed divergence at point %r is %r, the finite-difference divergence of the bin averages is %r" % (p, b[i], e)); break
            if abs(c[i] - b[i]) > 1e-9 * scale:
                viol.append("divergence depends on the order of sample arrival at point %r: %r vs %r" % (p, c[i], b[i])); break
        return viol
    if kind == "lap":
        ref = m["ref"]; pts = ref.points()
        Lx, Ly, Lc = vals(out, m["lx"], "LA"), vals(out, m["ly"], "LA"), vals(out, m["lc"], "LA")
        if Lx is None or Ly is None or Lc is None:
            return ["Laplacian output missing"]
        ex = ref.lap(dict(zip(pts, m["x"])))
        scale = max(1.0, max(abs(v) for v in Lx))
        for i, p in enumerate(pts):
            if abs(Lx[i] - ex[p]) > 1e-9 * scale:
                viol.append("Laplacian at point %r is %r, the documented stencil gives %r" % (p, Lx[i], ex[p])); break
        if max(abs(v) for v in Lc) > 1e-9 * scale:
            viol.append("the Laplacian of a constant field is not zero (max %r)" % max(abs(v) for v in Lc))
        s1 = sum(a * b for a, b in zip(m["x"], Ly)); s2 = sum(a * b for a, b in zip(m["y"], Lx))
        if abs(s1 - s2) > 1e-9 * max(1.0, abs(s1)):
            viol.append("the Laplacian is not symmetric: x.Ly = %r, y.Lx = %r" % (s1, s2))
        # solver: on exit the true residual is within the tolerance (or the iteration limit was hit)
        x = vals(out, m["lcg"], "x"); it = vals(out, m["lcg"], "iter")
        if x is not None and it is not None:
            itmax = int(case["lines"][m["lcg"] - 1].split()[2])
            Lsol = ref.lap(dict(zip(pts, x)))
            res = math.sqrt(sum((m["b"][i] - Lsol[p]) ** 2 for i, p in enumerate(pts)))
            bn = math.sqrt(sum(v * v for v in m["b"]))
            if it[0] < itmax and bn > 1e-12 and res > m["tol"] * bn * 1.001 + 1e-9 * bn:
                viol.append("the solver stopped after %d of %d iterations with residual %r > tolerance %r x |b| = %r" % (it[0], itmax, res, m["tol"], m["tol"] * bn))
        return viol
    if kind == "abf2d":
        smp = vals(out, m["dump"], "samples"); grad = vals(out, m["dump"], "grad"); dv = vals(out, m["dump"], "pmfdiv")
        if smp is None or grad is None or dv is None:
            return ["the ABF bias reported no divergence"]
        ref = Ref(m["nx"], m["w"], [False, False], 0, 0, False)
        idx = 0
        for ix in itertools.product(*[range(a) for a in m["nx"]]):
            ref.set(ix, smp[idx], grad[2 * idx:2 * idx + 2]); idx += 1
        pts = ref.points()
        scale = max(1.0, max(abs(x) for x in dv))
        for i, p in enumerate(pts):
            e = ref.div(p)
            if abs(dv[i] - e) > 1e-9 * scale:
                return ["2-D ABF%s: the divergence kept by the bias at point %r is %r, recomputed from its final gradients it is %r"
                        % (" (stopped and resumed at step %d)" % m["K"] if m["K"] >= 0 else "", p, dv[i], e)]
        return viol
    if kind == "poisson":
        errs = []
        for lv in m["levels"]:
            pmf = vals(out, lv["line"], "pmf"); rhs = vals(out, lv["line"], "rhs"); it = vals(out, lv["line"], "it")
            if pmf is None:
                return ["integration produced nothing"]
            nx, w, per = lv["nx"], lv["w"], m["per"]
            ref = Ref(nx, w, per, 0, 0, False)
            pts = ref.points()
            Lp = ref.lap(dict(zip(pts, pmf)))
            res = math.sqrt(sum((rhs[i] - Lp[p]) ** 2 for i, p in enumerate(pts)))
            bn = math.sqrt(sum(v * v for v in rhs))
            if it[0] < 2000 and res > 1e-10 * bn * 1.01 + 1e-9 * bn:
                viol.append("the written surface does not solve the discrete Poisson problem: |div - Laplacian(pmf)| = %r, tolerance x |div| = %r" % (res, 1e-10 * bn))
            # error against the smooth surface (points sit on bin edges), constant removed
            ex = [m["surf"]([i * wd for i, wd in zip(p, w)]) for p in pts]
            dm = sum(a - b for a, b in zip(pmf, ex)) / len(pts)
            errs.append(max(abs(a - b - dm) for a, b in zip(pmf, ex)))
        if len(errs) == 2 and errs[0] > 1e-6:
            if errs[1] > errs[0] / 2.5:
                viol.append("halving the bin width reduces the error against the smooth surface only from %r to %r (second order would be a factor 4)" % (errs[0], errs[1]))
        return viol
    return viol
