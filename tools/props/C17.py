"""C17 — extended-Lagrangian coordinates follow the documented integrator."""
import math
from cvlib import fbits, bits_to_f, tok_val
from cvscen import cfg, pos, tf, num

KB = 0.001987191
PI = 3.14159265358979323846
RULE = ("one extended-Lagrangian scalar variable with random fluctuation / time constant / temperature / engine time step, "
        "friction zero (energy-conservation stream: static value, constant or no bias) and non-zero (seeded Gaussian source), "
        "reflecting boundary on either side, a harmonic bias on the extended coordinate and a harmonicWalls bias acting on the "
        "actual value, trajectories of 40-200 steps cut by repeated step-0 and by save / fresh instance / load; "
        "non-trivial = the coordinate moved; distinct by op text")
ASSUMPTIONS = ["the variable and the biases acting on it share one timeStepFactor n in {1, 2, 3} (a third of the cases have n > 1): the variable is "
               "integrated only at steps that are multiples of n, with the slow time step n*dt in every term of the integrator (kick, drift, friction, noise)"]


def gen(rng, tier):
    n = 30 if tier == "quick" else 300
    cases = []
    for k in range(n):
        mode = ["conserve", "conserve_bias", "langevin", "reflect_lo", "reflect_hi", "walls", "generic", "reflect_both", "periodic"][k % 9]
        w = rng.choice([0.5, 1.0])
        tol = rng.choice([0.1, 0.2, 0.5]); tau = rng.choice([20.0, 50.0, 200.0]); T = rng.choice([300.0, 500.0])
        dt = rng.choice([0.5, 1.0, 2.0])
        g = 0.0 if mode in ("conserve", "conserve_bias", "reflect_lo", "reflect_hi", "reflect_both", "periodic") else rng.choice([0.0, 1.0, 10.0])
        if mode == "langevin":
            g = rng.choice([1.0, 5.0])
        kb = 0.0 if mode in ("conserve", "reflect_lo", "reflect_hi", "reflect_both", "periodic") else rng.choice([0.5, 2.0])
        cb = rng.uniform(-1, 1)
        kw = rng.choice([1.0, 4.0]) if mode in ("walls", "generic") else 0.0
        uw = rng.uniform(0.2, 1.0)
        lb, ub = -1.5, 1.5
        refl_lo = mode in ("reflect_lo", "reflect_both") or (mode == "generic" and rng.rand() < 0.3)
        refl_hi = mode in ("reflect_hi", "reflect_both") or (mode == "generic" and rng.rand() < 0.3)
        tsf = 1 if k % 3 != 2 else rng.choice([2, 3])
        if tsf * dt / tau > 0.06:
            tau = 200.0        # keep the slow step well inside the integrator's stability range (omega h << 2): an unstable trajectory only tests the tolerances
        kext = KB * T / (tol * tol)
        mext = (KB * T * tau * tau) / (4.0 * PI * PI * tol * tol)
        gam = g * 1.0e-3
        sig = math.sqrt((1.0 - math.exp(-2.0 * gam * dt * float(tsf))) * mext * KB * T) if g != 0.0 else 0.0
        tl = (" timeStepFactor %d\n" % tsf) if tsf > 1 else ""
        # a periodic variable that is a single component with coefficient -1 (homogeneous, but not "the component itself"): period 4, value -z
        PER = 4.0 if mode == "periodic" else 0.0
        PERI = ("  period %s\n  wrapAround 0.0\n  componentCoeff -1.0\n" % num(PER)) if PER else ""
        conf = ("colvar {\n name e\n" + tl + " width %s\n lowerBoundary %s\n upperBoundary %s\n extendedLagrangian on\n extendedFluctuation %s\n"
                " extendedTimeConstant %s\n extendedTemp %s\n extendedLangevinDamping %s\n%s%s outputEnergy on\n outputVelocity on\n"
                " distanceZ {\n  main { atomNumbers 1 }\n  ref { dummyAtom (0.0, 0.0, 0.0) }\n  axis (0.0, 0.0, 1.0)\n" + PERI + " }\n}\n") % (
            num(w), num(lb), num(ub), num(tol), num(tau), num(T), num(g),
            " reflectingLowerBoundary on\n" if refl_lo else "", " reflectingUpperBoundary on\n" if refl_hi else "")
        bconf = ""
        if kb:
            bconf += "harmonic {\n name hb\n" + tl + " colvars e\n forceConstant %s\n centers %s\n}\n" % (num(kb), num(cb))
        if kw:
            bconf += "harmonicWalls {\n name hw\n" + tl + " colvars e\n upperWalls %s\n forceConstant %s\n}\n" % (num(uw), num(kw))
        seed = rng.randint(1, 1 << 30)
        setup = ["m.opt dt %s" % fbits(dt), "m.opt rng %d" % seed, cfg(conf)] + ([cfg(bconf)] if bconf else [])
        ckpt = (k % 2 == 1) and tsf == 1
        ckpt_pfx = "/tmp/cv-c17-ck%d" % k
        if ckpt:
            setup = setup + ["m.opt prefix %s" % ckpt_pfx, "m.opt restartfreq 1"]
        mext_line = "M.ext e 0 k=%s mass=%s dt=%s gamma=%s sigma=%s langevin=%d width=%s rl=%s ru=%s haslo=%d hasup=%d kb=%s cb=%s kw=%s uw=%s tsf=%d per=%s coef=%s" % (
            fbits(kext), fbits(mext), fbits(dt), fbits(gam), fbits(sig), 1 if g != 0.0 else 0, fbits(w), fbits(lb), fbits(ub),
            1 if refl_lo else 0, 1 if refl_hi else 0, fbits(kb), fbits(cb), fbits(kw), fbits(uw), tsf, fbits(PER), fbits(-1.0 if PER else 1.0))
        lines = ["m.new 1"] + setup + [mext_line]
        nsteps = rng.randint(40, 90) if tier == "quick" else rng.randint(40, 200)
        x = rng.uniform(-1.0, 1.0)
        if mode == "walls":
            x = uw + rng.uniform(0.05, 0.4)       # beyond the wall from the start: the bypassing bias acts on the atoms at (nearly) every step
        x0 = x
        hist = []
        t = 0; segs = 0; since = 0
        prev_boundary = True
        while t < nsteps:
            boundary = None
            it_now = max(t - 1, 0)           # absolute step of a repeated step, or (for a new step) it_now + 1 below
            if tsf > 1 and (it_now % tsf != 0 or t == 0):
                pass
            elif mode not in ("conserve", "conserve_bias") and not prev_boundary and rng.rand() < 0.06:
                boundary = rng.choice(["cont", "restart"]) if g == 0.0 else "cont"   # the Gaussian stream is not part of the state
            elif hist and hist[-1]["boundary"] == "restart" and rng.rand() < 0.6:
                boundary = "cont"     # "run 0" after a restart, then the real run: step zero evaluated twice
            if boundary is None:
                if mode == "periodic":
                    # the value sits next to the cut of the period: the extended coordinate oscillates across it
                    x = 1.7 if t == 0 else 1.93 + rng.uniform(-0.01, 0.01)
                elif mode in ("conserve", "conserve_bias"):
                    x = x0
                elif mode in ("reflect_lo", "reflect_hi", "reflect_both"):
                    # drive the coordinate towards the reflecting boundary (both boundaries reflecting: the lower one in the first half of
                    # the trajectory, then the upper one)
                    down = mode == "reflect_lo" or (mode == "reflect_both" and t < nsteps // 2)
                    x += (-0.06 if down else 0.06) * (2.0 if mode == "reflect_both" else 0.5) + rng.uniform(-0.01, 0.01)
                else:
                    x += rng.uniform(-0.05, 0.05)
                lines.append(pos(0, 0.0, 0.0, -x if mode == "periodic" else x))
            if boundary == "restart":
                pfx = "/tmp/cv-c17-%d-%d" % (k, segs); segs += 1
                if ckpt and since >= 2:
                    # resume from the checkpoint the module wrote by itself during the last step (colvarsRestartFrequency 1): it must describe
                    # the same instant as a state saved after the step
                    lines += ["M.checkpoint " + ckpt_pfx, "m.new 1"] + setup + [mext_line, "m.load " + ckpt_pfx, pos(0, 0.0, 0.0, -x if mode == "periodic" else x), "m.step"]
                else:
                    lines += ["m.save " + pfx, "m.new 1"] + setup + [mext_line, "m.load " + pfx, pos(0, 0.0, 0.0, -x if mode == "periodic" else x), "m.step"]
            elif boundary == "cont":
                lines.append("m.step cont")
            else:
                lines.append("m.step"); t += 1; since += 1
            if boundary == "restart":
                since = 0
            prev_boundary = boundary is not None
            it_done = max(t - 1, 0)
            if it_done % tsf != 0:
                continue                     # the variable sleeps at this step: nothing to report
            step_line = len(lines)
            lines.append("e.dump e")
            hist.append({"x": x, "boundary": boundary, "line": step_line})
        cases.append({"lines": lines, "meta": {"mode": mode, "k": kext, "m": mext, "dt": dt, "gamma": gam, "kb": kb, "cb": cb, "kw": kw, "uw": uw, "tsf": tsf, "T": T, "per": PER,
                                                "w": w, "lb": lb, "ub": ub, "refl_lo": refl_lo, "refl_hi": refl_hi, "history": hist},
                      "nontrivial": True})
    return cases


def distribution(cases):
    d = {"mode": {}, "tsf": {}, "steps": 0, "cont": 0, "restart": 0}
    for c in cases:
        m = c["meta"]
        if "mode" not in m:
            continue
        d["mode"][m["mode"]] = d["mode"].get(m["mode"], 0) + 1
        d["tsf"][str(m.get("tsf", 1))] = d["tsf"].get(str(m.get("tsf", 1)), 0) + 1
        d["steps"] += len(m["history"]); d["cont"] += sum(1 for h in m["history"] if h["boundary"] == "cont")
        d["restart"] += sum(1 for h in m["history"] if h["boundary"] == "restart")
    return d


def vals(out, ln, tag):
    v = out.get((ln, tag, 1))
    return None if v is None else [tok_val(t)[1] for t in v]


def oracle(case, out):
    m = case["meta"]; viol = []
    nf = float(m.get("tsf", 1))
    PER = m.get("per", 0.0)

    def pd(a, b):
        d = a - b
        return d - PER * math.floor(d / PER + 0.5) if PER else d
    k, ms, h = m["k"], m["m"], m["dt"] * nf
    rows = []
    for hh in m["history"]:
        ln = hh["line"] + 1
        r = {t: vals(out, ln, t) for t in ("xr", "vr", "ek", "ep", "fr", "fa", "xnext", "vnext", "err")}
        if any(v is None for v in r.values()):
            return ["no extended-Lagrangian data reported"]
        rows.append({t: v[0] for t, v in r.items()})
    # same time origin: what is reported at a step is what the previous update left, unless the step was repeated
    for i in range(1, len(rows)):
        b = m["history"][i]["boundary"]
        if b is None:
            if abs(pd(rows[i]["xr"], rows[i - 1]["xnext"])) > 1e-9 * max(1.0, abs(rows[i]["xr"])) or abs(rows[i]["vr"] - rows[i - 1]["vnext"]) > 1e-9 * max(1.0, abs(rows[i]["vr"])):
                viol.append("step %d: reported value/velocity (%r, %r) are not those left by the previous integration (%r, %r)" % (
                    i, rows[i]["xr"], rows[i]["vr"], rows[i - 1]["xnext"], rows[i - 1]["vnext"]))
                return viol
        else:
            # a repeated step must not advance the coordinate twice: it restarts from what was reported at the repeated step
            if abs(rows[i]["xr"] - rows[i - 1]["xr"]) > 1e-9 * max(1.0, abs(rows[i]["xr"])) or abs(rows[i]["vr"] - rows[i - 1]["vr"]) > 1e-9 * max(1.0, abs(rows[i]["vr"])):
                viol.append("repeated step %d (%s): the extended coordinate restarted from (%r, %r) instead of the state reported at that step (%r, %r)" % (
                    i, b, rows[i]["xr"], rows[i]["vr"], rows[i - 1]["xr"], rows[i - 1]["vr"]))
                return viol
    # routing: the atoms feel the coupling spring (plus biases that bypass the extended coordinate), nothing else
    for i, r in enumerate(rows):
        x = m["history"][i]["x"]
        spring = k * pd(r["xr"], x)
        wallf = 0.0
        if m["kw"] and x > m["uw"]:
            wallf = -m["kw"] / (m["w"] ** 2) * (x - m["uw"])
        if abs(r["fa"] - nf * (spring + wallf)) > 1e-8 * max(1.0, abs(nf * spring)):
            viol.append("step %d: force on the atoms %r, %g x (coupling spring + bypassing biases) gives %r" % (i, r["fa"], nf, nf * (spring + wallf)))
            return viol
        fb = -m["kb"] / (m["w"] ** 2) * (r["xr"] - m["cb"]) if m["kb"] else 0.0
        if abs(r["fr"] - fb) > 1e-8 * max(1.0, abs(fb)):
            viol.append("step %d: bias force on the extended coordinate %r, harmonic bias at the reported value gives %r" % (i, r["fr"], fb))
            return viol
    # the documented integrator (BAOA, slow time step n*dt in every term), recomputed from the reported state, the closed-form
    # forces and the Gaussian numbers the library actually drew at that step
    gam = m["gamma"]
    sig = math.sqrt((1.0 - math.exp(-2.0 * gam * h)) * ms * KB * m["T"]) if gam != 0.0 else 0.0
    for i, r in enumerate(rows):
        x = m["history"][i]["x"]
        fb = -m["kb"] / (m["w"] ** 2) * (r["xr"] - m["cb"]) if m["kb"] else 0.0
        fext = fb - k * pd(r["xr"], x)
        v2 = r["vr"] + h * fext / ms
        x1 = r["xr"] + h * v2 / 2.0
        if gam != 0.0:
            g = vals(out, m["history"][i]["line"] + 1, "rnd")
            if not g or len(g) != 1:
                viol.append("step %d: a variable with friction drew %r Gaussian numbers instead of one" % (i, g)); return viol
            v3 = math.exp(-gam * h) * v2 + sig * g[0] / ms
        else:
            v3 = v2
        x2 = x1 + h * v3 / 2.0
        if (m["refl_lo"] and x2 < m["lb"]) or (m["refl_hi"] and x2 > m["ub"]):
            continue                      # reflection: checked below
        tolx = 1e-9 * max(1.0, abs(x2)); tolv = 1e-9 * max(1.0, abs(v3))
        if abs(pd(r["xnext"], x2)) > tolx or abs(r["vnext"] - v3) > tolv:
            viol.append("step %d (time-step factor %g, friction %g/fs): the integrator left (x, v) = (%r, %r); the documented recurrence with time step "
                        "%g from the reported (%r, %r), force %r and the drawn number gives (%r, %r)" % (
                            i, nf, gam, r["xnext"], r["vnext"], h, r["xr"], r["vr"], fext, x2, v3))
            return viol
    # reflecting boundaries
    for i, r in enumerate(rows):
        if r["err"]:
            continue
        if (m["refl_lo"] and r["xnext"] < m["lb"] - 1e-12) or (m["refl_hi"] and r["xnext"] > m["ub"] + 1e-12):
            viol.append("step %d: extended coordinate %r outside its reflecting boundaries" % (i, r["xnext"]))
            return viol
    # frictionless, static value: shadow energy exactly conserved => no drift, fluctuation second order in the time step
    if m["mode"] in ("conserve", "conserve_bias"):
        x = m["history"][0]["x"]
        def shadow(r):
            d = r["xr"] - x
            e = r["ek"] + r["ep"] - (h * h * k * k / (8.0 * ms)) * d * d
            if m["kb"]:
                # harmonic bias on the extended coordinate: total spring constant k + kb/w^2 around a shifted centre
                kbw = m["kb"] / (m["w"] ** 2)
                kt = k + kbw
                c = (k * x + kbw * m["cb"]) / kt
                dd = r["xr"] - c
                e = r["ek"] + 0.5 * kt * dd * dd - (h * h * kt * kt / (8.0 * ms)) * dd * dd
            return e
        e0 = shadow(rows[1])
        scale = max(abs(rows[1]["ek"]) + abs(rows[1]["ep"]), 1e-6)
        for i in range(2, len(rows)):
            if abs(shadow(rows[i]) - e0) > 1e-8 * scale + 1e-12:
                viol.append("frictionless run: kinetic + coupling energy drifts (shadow energy %r at step %d, %r at step 1)" % (shadow(rows[i]), i, e0))
                return viol
    return viol
