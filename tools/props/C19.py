"""C19 — written outputs faithfully describe the internal state at the stated step."""
import math, os, shutil
import cvbuild
from cvlib import fbits, bits_to_f, tok_val
from cvscen import cfg, pos, tf, num, inj_cv

RULE = ("trajectory files of modules with 1-2 variables under every combination of the five output flags (plus extended-Lagrangian "
        "variables), 0-2 harmonic biases with outputEnergy / outputCenters / outputAccumulatedWork, trajectory frequency 1-4, "
        "start step 0 or not a multiple of the frequency, configuration added in mid-run at steps on and off the output schedule, "
        "repeated step-0; running average with length 2-5 and stride 1-2; the model predicts every label and data line "
        "(step number and column count) and every running-average line; the oracle checks each file on its own; "
        "non-trivial = at least one optional column; distinct by op text")
ASSUMPTIONS = ["a value written as a parenthesised group counts as one column", "number formatting (14 significant digits) is not modelled: values compared at 1e-10 relative"]
COMPARE = {"tol_by_tag": {"tv": (1e-10, 1e-12)}}


def cv_conf(name, atom, flags, ra_len, ra_stride, ext):
    v, vel, en, tfc, af = flags
    s = "colvar {\n  name %s\n  width 0.5\n" % name
    if not v:
        s += "  outputValue off\n"
    if vel:
        s += "  outputVelocity on\n"
    if tfc:
        s += "  outputTotalForce on\n"
    if af:
        s += "  outputAppliedForce on\n"
    if ext:
        s += "  extendedLagrangian on\n  extendedFluctuation 0.2\n  extendedTimeConstant 50.0\n  extendedTemp 300.0\n  extendedLangevinDamping 0.0\n"
        if en:
            s += "  outputEnergy on\n"
    if ra_len:
        s += "  runAve on\n  runAveLength %d\n  runAveStride %d\n" % (ra_len, ra_stride)
    s += "  distanceZ {\n    main { atomNumbers %d }\n    ref { dummyAtom (0.0, 0.0, 0.0) }\n    axis (0.0, 0.0, 1.0)\n    oneSiteTotalForce on\n  }\n}\n" % (atom + 1)
    return s


def gen_traj(rng, tier):
    n = 40 if tier == "quick" else 400
    cases = []
    work = os.path.join(cvbuild.CACHE, "c19-scratch")
    os.makedirs(work, exist_ok=True)
    for k in range(n):
        ncv = 1 + (k % 2)
        freq = rng.randint(1, 4)
        it0 = rng.choice([0, 0, 5, 7, 1000 * freq - 3])
        prefix = os.path.join(work, "o%d" % k)
        for fn in os.listdir(work):
            if fn.startswith("o%d." % k):
                os.unlink(os.path.join(work, fn))
        lines = ["m.new %d" % ncv] + (["m.opt it %d" % it0] if it0 else []) + ["m.opt prefix %s" % prefix, "m.opt trajfreq %d" % freq,
                 "O.traj %d" % freq, "O.file %s.colvars.traj traj" % prefix]
        cvflags = []
        conf = ""
        mo = []
        for i in range(ncv):
            bits = (k // 2 + 7 * i) % 32
            ext = (k % 9 == 4) and i == 0
            flags = [bool(bits & 1) or True if False else bool(bits & 1), bool(bits & 2), bool(bits & 4) and ext, bool(bits & 8), bool(bits & 16)]
            if k % 5 == 0:
                flags[0] = True
            ra_len = rng.randint(2, 5) if (i == 0 and k % 3 == 0 and not ext) else 0
            ra_stride = rng.randint(1, 2)
            conf += cv_conf("x%d" % i, i, flags, ra_len, ra_stride, ext)
            mo.append("O.cv x%d %d %d %d %d %d %d %d %d %d" % (i, i, flags[0], flags[1], flags[2], flags[3], flags[4], 1 if ext else 0, ra_len, ra_stride))
            if ra_len:
                mo.append("O.file %s.x%d.runave.traj x%d" % (prefix, i, i))
            cvflags.append((flags, ext, ra_len, ra_stride))
        lines.append(cfg(conf)); lines += mo

        def bias(name, moving):
            e = rng.rand() < 0.6; oc = rng.rand() < 0.4; wk = moving and rng.rand() < 0.6
            b = "harmonic {\n name %s\n colvars x0\n forceConstant 1.0\n centers 0.3\n" % name
            if e:
                b += " outputEnergy on\n"
            if moving:
                b += " targetCenters 1.3\n targetNumSteps 50\n"
            if oc:
                b += " outputCenters on\n"
            if wk:
                b += " outputAccumulatedWork on\n"
            b += "}\n"
            ncent = 1 if oc else 0
            return b, "O.bias %s %d %d %d x0" % (name, 1 if e else 0, ncent, 1 if wk else 0)
        nb = rng.randint(0, 1)
        bmeta = []
        for j in range(nb):
            mv = rng.rand() < 0.5
            b, o = bias("h%d" % j, mv)
            lines.append(cfg(b)); lines.append(o)
            bmeta.append({"name": "h%d" % j, "moving": mv, "from": -1, "centers": "outputCenters on" in b})
        nsteps = rng.randint(8, 25)
        add_at = rng.randint(2, nsteps - 2) if rng.rand() < 0.6 else -1
        xs = [rng.uniform(-1, 1) for _ in range(ncv)]
        hist = []
        for s_ in range(nsteps):
            cont = s_ > 0 and rng.rand() < 0.1
            if not cont:
                for i in range(ncv):
                    xs[i] += rng.uniform(-0.3, 0.3)
                    lines.append(pos(i, 0.0, 0.0, xs[i])); lines.append(tf(i, 0.0, 0.0, rng.uniform(-1, 1)))
            lines.append("m.step cont" if cont else "m.step")
            hist.append((list(xs), cont))
            if s_ == add_at:
                b, o = bias("hx", False)
                lines.append(cfg(b)); lines.append(o)
                bmeta.append({"name": "hx", "moving": False, "from": s_, "centers": "outputCenters on" in b})
        lines.append("t.dump %s.colvars.traj" % prefix)
        dump_line = len(lines)
        ra_dump = None
        if cvflags[0][2]:
            lines.append("t.dump %s.x0.runave.traj" % prefix); ra_dump = len(lines)
        cases.append({"lines": lines, "meta": {"freq": freq, "it0": it0, "ncv": ncv, "flags": [(f, e) for (f, e, _, _) in cvflags], "dump": dump_line,
                                                "ra_dump": ra_dump, "ra": (cvflags[0][2], cvflags[0][3]), "history": hist, "add_at": add_at, "biases": bmeta},
                      "nontrivial": any(any(f[1:]) for (f, e, _, _) in cvflags) or nb > 0})
    return cases


def distribution(cases):
    d = {"freq": {}, "runave": 0, "extended": 0, "midrun_config": 0, "steps": 0, "start_off_schedule": 0, "acf": {}}
    for c in cases:
        m = c["meta"]
        if m.get("family") == "acf":
            key = "%s/%s/%s" % (m["vt"], m["acf"]["kind"], "cross" if m["acf"]["with"] == "q" else "auto")
            d["acf"][key] = d["acf"].get(key, 0) + 1
            continue
        if m.get("family") == "work":
            key = "work/%s/%s" % (m["kind"], "to zero" if m["k1"] == 0.0 else "to k1"); d["acf"][key] = d["acf"].get(key, 0) + 1
            continue
        if "freq" not in m:
            continue
        d["freq"][m["freq"]] = d["freq"].get(m["freq"], 0) + 1
        d["runave"] += int(bool(m["ra"][0])); d["extended"] += int(any(e for (_, e) in m["flags"]))
        d["midrun_config"] += int(m["add_at"] >= 0); d["steps"] += len(m["history"]); d["start_off_schedule"] += int(m["it0"] % m["freq"] != 0)
    return d


def file_lines(out, ln):
    """the td / tl / tv lines of one dump, in file order"""
    items = []
    for (l, tag, occ), v in out.items():
        if l == ln and tag in ("tl", "td", "tv"):
            items.append((tag, occ, v))
    # order is not recoverable from occurrence numbers across tags, so rebuild from counts: labels and data are
    # interleaved; use the step numbers: a label carries no step, so we rely on per-tag order and the td->tv pairing
    return items


CHECKED = {}


def oracle(case, out):
    m = case["meta"]; viol = []
    if m.get("family") == "acf":
        return oracle_acf(case, out)
    if m.get("family") == "work":
        return oracle_work(case, out)
    ln = m["dump"]
    # reconstruct the file order: the harness prints lines in file order; parse_out numbers occurrences per tag, so
    # collect per tag in order
    tls = []; tds = []
    occ = 1
    while (ln, "td", occ) in out:
        tds.append([tok_val(t)[1] for t in out[(ln, "td", occ)]]); occ += 1
    occ = 1
    while (ln, "tl", occ) in out:
        tls.append([tok_val(t)[1] for t in out[(ln, "tl", occ)]]); occ += 1
    if not tds:
        return ["the trajectory file has no data line"]
    # one line per multiple of the frequency, in order, no duplicates other than repeated steps of a new run
    freq = m["freq"]
    steps = [d[0] for d in tds]
    it = m["it0"]; first = True; expected = []
    for xs, cont in m["history"]:
        if first:
            first = False
        elif not cont:
            it += 1
        if it % freq == 0:
            expected.append(it)
    if steps != expected:
        viol.append("trajectory lines carry steps %r, the multiples of the output frequency visited are %r" % (steps[:12], expected[:12]))
        return viol
    for s_ in steps:
        if s_ % freq != 0:
            viol.append("a trajectory line is stamped with step %d, not a multiple of the frequency %d" % (s_, freq))
    # every data line has exactly the columns announced by the preceding label line
    occ = 1
    while (ln, "tc", occ) in out:
        nc, nl = [tok_val(t)[1] for t in out[(ln, "tc", occ)]]
        if nl < 0:
            viol.append("data line %d of the trajectory file is not preceded by any label line" % occ); return viol
        if nc != nl:
            viol.append("data line %d (step %d) has %d columns but the preceding label line announces %d" % (occ, tds[occ - 1][0], nc, nl)); return viol
        occ += 1
    # the values in the columns: the variable's value at that step, the restraint energies, centres and the force applied
    # to the variable, from their closed forms (harmonic, k = 1, width 0.5, centre 0.3 moving to 1.3 over 50 steps)
    if "biases" in m:
        it = m["it0"]; first = True; rows = []
        for hi, (xs, cont) in enumerate(m["history"]):
            if first:
                first = False
            elif not cont:
                it += 1
            if it % freq == 0:
                rows.append((it, hi, xs))
        ext0 = bool(m["flags"][0][1])

        def centre(b, t):
            return 0.3 + (1.3 - 0.3) * min(t - m["it0"], 50) / 50.0 if b["moving"] else 0.3
        for occ, (t_, hi, xs) in enumerate(rows, 1):
            tv = out.get((ln, "tv", occ)); tli = out.get((ln, "tli", occ))
            if tv is None or tli is None:
                break
            vals_ = [tok_val(t)[1] for t in tv]
            li = tok_val(tli[0])[1]
            if not (1 <= li <= len(tls)):
                break
            labels = tls[li - 1][1:]            # without "step"
            if len(labels) != len(vals_):
                break                           # (vector columns: not generated here; column counts are checked above)
            alive = [b for b in m["biases"] if b["from"] < hi]
            ncent = sum(1 for b in alive if b["centers"])
            for lab, v in zip(labels, vals_):
                exp = None; what = None
                if lab in ("x0", "x1") and not (lab == "x0" and ext0):
                    exp = xs[int(lab[1])]; what = "the value of %s at step %d" % (lab, t_)
                elif lab.startswith("E_") and not ext0:
                    bb = [b for b in alive if b["name"] == lab[2:]]
                    if bb:
                        exp = 0.5 * ((xs[0] - centre(bb[0], t_)) / 0.5) ** 2; what = "the energy of restraint %s at step %d" % (lab[2:], t_)
                elif lab == "x0_x0" and ncent == 1:
                    bb = [b for b in alive if b["centers"]][0]
                    exp = centre(bb, t_); what = "the centre of restraint %s at step %d" % (bb["name"], t_)
                elif lab == "fa_x0" and not ext0:
                    exp = sum(-(xs[0] - centre(b, t_)) / 0.25 for b in alive); what = "the force applied to x0 at step %d (sum over %d restraints)" % (t_, len(alive))
                if exp is not None:
                    CHECKED[lab.split("_")[0] if "_" in lab else "x"] = CHECKED.get(lab.split("_")[0] if "_" in lab else "x", 0) + 1
                if exp is not None and abs(v - exp) > 1e-9 * max(1.0, abs(exp)):
                    viol.append("trajectory column %s at step %d holds %r, but %s is %r" % (lab, t_, v, what, exp))
                    return viol
    # running average and standard deviation: textbook definitions over the window
    if m["ra_dump"]:
        L_, stride = m["ra"]
        rl = m["ra_dump"]
        lines = []; occ = 1
        while (rl, "td", occ) in out:
            st = tok_val(out[(rl, "td", occ)][0])[1]
            v = [tok_val(t)[1] for t in out[(rl, "tv", occ)]]
            lines.append((st, v)); occ += 1
        # values seen by the analysis: one per eligible step (first call only initialises)
        rel = 0; first = True; prev = -1; started = False; window = []
        exp = []
        for xs, cont in m["history"]:
            if first:
                first = False
            elif not cont:
                rel += 1
            if not started:
                started = True
            elif rel % stride == 0 and rel > prev:
                window.append(xs[0])
                if len(window) >= L_:
                    w = window[-L_:]
                    mean = sum(w) / L_
                    sd = math.sqrt(sum((a - mean) ** 2 for a in w) / (L_ - 1))
                    exp.append((rel, mean, sd))
            prev = rel
        if len(exp) != len(lines):
            viol.append("running-average file has %d lines, %d windows of %d values were completed" % (len(lines), len(exp), L_)); return viol
        for (st, v), (er, em, es) in zip(lines, exp):
            if st != m["it0"] + er:
                viol.append("running-average file: the line for the window completed at step %d (step %d of a run that started at step %d) is "
                            "stamped with step %r" % (m["it0"] + er, er, m["it0"], st))
                return viol
            if abs(v[0] - em) > 1e-9 * max(1.0, abs(em)) or abs(v[1] - es) > 1e-9 * max(1.0, abs(es)):
                viol.append("running average at relative step %d: written (%r, %r), mean and sample standard deviation of the last %d values are (%r, %r)" % (st, v[0], v[1], L_, em, es))
                return viol
    return viol


# ---------------------------------------------------------------- time-correlation functions
def acf_cv(name, vt, a, b, acf):
    """vt: s = scalar (z of atom a), v = distanceVec a->b, u = distanceDir a->b; acf = None or dict"""
    s = "colvar {\n  name %s\n" % name
    if acf:
        s += "  corrFunc on\n  corrFuncType %s\n  corrFuncLength %d\n  corrFuncStride %d\n  corrFuncOffset %d\n  corrFuncNormalize %s\n" % (
            {"coor": "coordinate", "vel": "velocity", "p2": "coordinate_p2"}[acf["kind"]], acf["L"], acf["s"], acf["o"], "on" if acf["norm"] else "off")
        if acf["with"] != name:
            s += "  corrFuncWithColvar %s\n" % acf["with"]
    if vt == "s":
        s += "  distanceZ {\n    main { atomNumbers %d }\n    ref { dummyAtom (0.0, 0.0, 0.0) }\n    axis (0.0, 0.0, 1.0)\n  }\n}\n" % (a + 1)
    else:
        s += "  %s {\n    group1 { atomNumbers %d }\n    group2 { atomNumbers %d }\n  }\n}\n" % ("distanceVec" if vt == "v" else "distanceDir", a + 1, b + 1)
    return s


def gen_acf(rng, tier):
    n = 24 if tier == "quick" else 300
    cases = []
    work = os.path.join(cvbuild.CACHE, "c19-scratch")
    os.makedirs(work, exist_ok=True)
    combos = [("s", "coor"), ("s", "vel"), ("v", "coor"), ("v", "vel"), ("v", "p2"), ("u", "coor"), ("u", "p2")]
    for k in range(n):
        vt, kind = combos[k % len(combos)]
        cross = (k // len(combos)) % 2 == 1
        L = rng.randint(1, 4); st = rng.randint(1, 3); o = rng.randint(0, 2); norm = rng.rand() < 0.5
        K = st * rng.randint(1, 3)
        dt = rng.choice([0.5, 1.0, 2.0])
        it0 = rng.choice([0, 0, K, 3 * K + 1])
        prefix = os.path.join(work, "a%d" % k)
        for fn in os.listdir(work):
            if fn.startswith("a%d." % k):
                os.unlink(os.path.join(work, fn))
        acf = {"kind": kind, "L": L, "s": st, "o": o, "norm": norm, "with": "q" if cross else "p"}
        lines = ["m.new 4", "m.opt dt %s" % fbits(dt), "m.opt restartfreq %d" % K] + (["m.opt it %d" % it0] if it0 else []) + ["m.opt prefix %s" % prefix]
        # the partner is defined first (a velocity correlation looks it up when the configuration is parsed)
        lines.append(cfg(acf_cv("q", vt, 2, 3, None) + acf_cv("p", vt, 0, 1, acf)))
        lines.append("A.acf p %s %s %s %d %d %d %d 0 1" % (acf["with"], kind, vt, L, st, o, 1 if norm else 0))
        lines.append("A.acf q q coor %s 1 1 0 0 2 3" % vt)      # (declares q's atoms to the model; q itself has no correlation function)
        lines.append("A.file %s.p.corrfunc.dat p" % prefix)
        N = (L + o) * st + rng.randint(2, 14)
        P = [[rng.uniform(-2, 2) for _ in range(3)] for _ in range(4)]
        P[1][0] += 3.0; P[3][1] += 3.0
        hist = []
        for s_ in range(N + 1):
            for a in range(4):
                P[a] = [x + rng.uniform(-0.4, 0.4) for x in P[a]]
                lines.append(pos(a, P[a][0], P[a][1], P[a][2]))
            lines.append("m.step")
            hist.append([list(p_) for p_ in P])
            # a new run of the engine repeats its first step: nothing is sampled twice and the interleaved histories (stride > 1) stay aligned
            if s_ >= 2 and rng.rand() < 0.12:
                lines.append("m.step cont")
        lines.append("t.dump %s.p.corrfunc.dat" % prefix)
        cases.append({"lines": lines, "meta": {"family": "acf", "vt": vt, "acf": acf, "K": K, "dt": dt, "it0": it0, "history": hist, "dump": len(lines)},
                      "nontrivial": True})
    return cases


def gen_work(rng, tier):
    """accumulated work of a restraint whose force constant changes (also down to exactly zero): the W_ column against
    sum over steps of dU/dk times the increment of k"""
    cases = []
    work = os.path.join(cvbuild.CACHE, "c19-scratch"); os.makedirs(work, exist_ok=True)
    for k in range(6 if tier == "quick" else 60):
        kind = ["walls", "harmonic", "linear"][k % 3]
        w = rng.choice([0.5, 1.0]); k0 = rng.choice([2.0, 5.0, 10.0]); k1 = [0.0, 0.0, rng.choice([0.5, 20.0])][(k // 3) % 3]
        dec = (k1 == 0.0 and k % 2 == 0)
        n = rng.randint(5, 12); lexp = rng.choice([1.0, 1.0, 2.0])
        c0 = rng.uniform(-0.5, 0.5)
        sched = (" decoupling on\n" if dec else " targetForceConstant %s\n" % num(k1)) + " targetNumSteps %d\n lambdaExponent %s\n" % (n, num(lexp))
        if kind == "walls":
            b = "harmonicWalls {\n name wb\n colvars x0\n upperWalls %s\n forceConstant %s\n%s outputAccumulatedWork on\n outputEnergy on\n}\n" % (num(c0), num(k0), sched)
        elif kind == "harmonic":
            b = "harmonic {\n name wb\n colvars x0\n centers %s\n forceConstant %s\n%s outputAccumulatedWork on\n outputEnergy on\n}\n" % (num(c0), num(k0), sched)
        else:
            b = "linear {\n name wb\n colvars x0\n centers %s\n forceConstant %s\n%s outputAccumulatedWork on\n outputEnergy on\n}\n" % (num(c0), num(k0), sched)
        prefix = os.path.join(work, "w%d" % k)
        lines = ["m.new 1", "m.opt prefix %s" % prefix, "m.opt trajfreq 1", cfg(inj_cv("x0", 0, -3.0, 3.0, w)), cfg(b)]
        xs = []
        x = c0 + rng.uniform(0.3, 1.0)               # beyond the wall / away from the centre during the whole schedule
        for t in range(n + 4):
            x = max(c0 + 0.2, x + rng.uniform(-0.15, 0.2))
            lines += [pos(0, 0.0, 0.0, x), "m.step"]; xs.append(x)
        lines.append("t.dump %s.colvars.traj" % prefix)
        cases.append({"lines": lines, "meta": {"family": "work", "kind": kind, "w": w, "k0": k0, "k1": 0.0 if dec else k1, "dec": dec, "n": n, "lexp": lexp, "c0": c0,
                                               "xs": xs, "dump": len(lines)}, "nontrivial": True})
    return cases


def oracle_work(case, out):
    m = case["meta"]; ln = m["dump"]
    tls = []; occ = 1
    while (ln, "tl", occ) in out:
        tls.append([tok_val(t)[1] for t in out[(ln, "tl", occ)]]); occ += 1
    rows = []; occ = 1
    while (ln, "td", occ) in out:
        rows.append((tok_val(out[(ln, "td", occ)][0])[1], [tok_val(t)[1] for t in out[(ln, "tv", occ)]])); occ += 1
    if not tls or "W_wb" not in tls[0]:
        return ["the trajectory of a restraint with outputAccumulatedWork has no W_ column (labels %r)" % (tls[:1],)]
    iw = tls[0].index("W_wb") - 1; ie = tls[0].index("E_wb") - 1
    n, k0, k1, w, c0 = m["n"], m["k0"], m["k1"], m["w"], m["c0"]

    def kat(t):
        lam = min(t, n) / float(n)
        if m["dec"]:
            lam = 1.0 - lam
            return k0 * lam ** m["lexp"] if t <= n else 0.0          # decoupling: from k0 down to 0
        return k0 + (k1 - k0) * lam ** m["lexp"]

    def dudk(x):
        if m["kind"] == "linear":
            return (x - c0) / w
        return 0.5 * (x - c0) ** 2 / (w * w)
    W = 0.0
    for t, x in enumerate(m["xs"]):
        if t > 0 and t <= n:
            W += dudk(x) * (kat(t) - kat(t - 1))
        if t >= len(rows):
            return ["the trajectory has %d lines for %d steps" % (len(rows), len(m["xs"]))]
        st, v = rows[t]
        e = kat(t) * dudk(x)
        if abs(v[ie] - e) > 1e-9 * max(1.0, abs(e)):
            return ["%s restraint with a force constant going from %r to %r in %d steps: energy column at step %d is %r, k(t) dU/dk gives %r" % (m["kind"], k0, k1, n, t, v[ie], e)]
        if abs(v[iw] - W) > 1e-9 * max(1.0, abs(W)):
            return ["%s restraint with a force constant going from %r to %r in %d steps%s: accumulated-work column at step %d is %r, the sum over steps of dU/dk times "
                    "the increment of k is %r" % (m["kind"], k0, k1, n, " (decoupling)" if m["dec"] else "", t, v[iw], W)]
    return []


def gen(rng, tier):
    return gen_traj(rng, tier) + gen_acf(rng, tier) + gen_work(rng, tier)


def oracle_acf(case, out):
    """the textbook definition C_ij(tau) = < Pi(xi_i(t0), xi_j(t0 + tau)) > over the values the variables actually took"""
    m = case["meta"]; a = m["acf"]; vt = m["vt"]; ln = m["dump"]
    L, st, o, K, dt = a["L"], a["s"], a["o"], m["K"], m["dt"]

    def val(P, i, j):
        if vt == "s":
            return [P[i][2]]
        d = [P[j][c] - P[i][c] for c in range(3)]
        if vt == "u":
            n_ = math.sqrt(sum(x * x for x in d)); d = [x / n_ for x in d]
        return d
    H = m["history"]
    own = [val(P, 0, 1) for P in H]; oth = [val(P, 2, 3) for P in H] if a["with"] == "q" else own
    if a["kind"] == "vel":
        def vel(S):
            return [[0.0] * len(S[0])] + [[(x - y) / dt for x, y in zip(S[t], S[t - 1])] for t in range(1, len(S))]
        own, oth = vel(own), (vel(oth) if a["with"] == "q" else None)
        if oth is None:
            oth = own

    def dot(x, y):
        return sum(p * q for p, q in zip(x, y))

    def Pi(past, now):
        if a["kind"] == "p2":
            c = dot(past, now) if vt == "u" else dot(past, now) / math.sqrt(dot(past, past) * dot(now, now))
            return 1.5 * c * c - 0.5
        return dot(past, now)
    # the file shows the state at the last step (> first) whose absolute number is a multiple of the restart frequency
    last = max([t for t in range(1, len(H)) if (m["it0"] + t) % K == 0], default=0)
    rows = [0.0] * (L + 1); cnt = 0
    for t in range(1, last + 1):
        if t - (o + L) * st >= 1:
            cnt += 1
            rows[0] += 1.0 if a["kind"] == "p2" else dot(own[t], oth[t])
            for j in range(1, L + 1):
                rows[j] += Pi(own[t - (o + j) * st], oth[t])
    got = []; occ = 1
    while (ln, "td", occ) in out:
        got.append((tok_val(out[(ln, "td", occ)][0])[1], tok_val(out[(ln, "tv", occ)][0])[1])); occ += 1
    what = "%s correlation function of a %s variable %s (length %d, stride %d, offset %d, %snormalised)" % (
        {"coor": "coordinate", "vel": "velocity", "p2": "coordinate_p2"}[a["kind"]], {"s": "scalar", "v": "3-vector", "u": "unit-vector"}[vt],
        "with another variable" if a["with"] == "q" else "with itself", L, st, o, "" if a["norm"] else "not ")
    if cnt == 0:
        return [] if not got else ["%s: %d rows written although no complete row of lags exists yet" % (what, len(got))]
    if len(got) != L + 1:
        return ["%s: the file has %d rows, expected %d (state at relative step %d, %d complete rows of lags)" % (what, len(got), L + 1, last, cnt)]
    exp = [r / cnt for r in rows]
    if a["norm"]:
        exp = [r / exp[0] for r in exp]
    for j, ((lab, v), e) in enumerate(zip(got, exp)):
        if lab != st * (o + j):
            return ["%s: row %d is labelled %r, expected %d" % (what, j, lab, st * (o + j))]
        if not (abs(v - e) <= 1e-9 * max(1.0, abs(e))):
            return ["%s: row %d (lag %d steps) is %r; the average of Pi(xi_i(t0), xi_j(t0 + lag)) over the %d available time origins is %r"
                    % (what, j, 0 if j == 0 else st * (o + j), v, cnt, e)]
    return []


def oracle_runave(case, out):
    return []
