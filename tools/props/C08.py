"""C08 — bias contributions superpose; multiple-time-step scaling conserves impulse."""
import math
from cvlib import fbits, bits_to_f, tok_val
from cvscen import inj_cv, cfg, pos, tf, num

RULE = ("sets of 2-4 biases (harmonic, harmonicWalls, linear, histogram, metadynamics without grids, ABF with applyBias on/off) "
        "on 1-3 shared injected variables with time-step factors 1-4; each set is run together (A+B) and split into two "
        "disjoint subsets run in separate instances on the same trajectory for 3n+2 steps; ABF is coupled through "
        "subtractAppliedForce with closed-loop total forces; non-trivial = at least two force-applying biases share a variable; "
        "distinct by op text")
ASSUMPTIONS = ["in the superposition families time-step factors are set on biases and variables keep factor 1 (ABF requires equal factors, so ABF has "
               "factor 1); the 'radial' family gives the *variable* a factor n in {1,2,3,4} (a distance from the origin with a harmonic restraint "
               "and, in two thirds of the cases, an ABF bias with or without hideJacobian, all sharing the factor; current-step total forces)"]
KB = 0.001987191


PARAMS = {}


def bias_conf(rng, kind, name, cvs, w, tsf):
    """returns (config text, model lines)"""
    nd = len(cvs)
    names = " ".join(cvs)
    t = " timeStepFactor %d\n" % tsf if tsf > 1 else ""
    ml = []
    if kind == "harmonic":
        k = rng.choice([0.5, 2.0, 5.0]); c = [rng.uniform(-2, 2) for _ in range(nd)]
        conf = "harmonic {\n name %s\n colvars %s\n forceConstant %s\n centers %s\n%s}\n" % (name, names, num(k), " ".join(num(x) for x in c), t)
        ml.append("M.restr %s harmonic %d %s k=%s centers=%s" % (name, nd, names, fbits(k), ",".join(fbits(x) for x in c)))
        PARAMS[name] = ("harmonic", k, c)
    elif kind == "linear":
        k = rng.choice([0.5, 2.0]); c = [rng.uniform(-2, 2) for _ in range(nd)]
        conf = "linear {\n name %s\n colvars %s\n forceConstant %s\n centers %s\n%s}\n" % (name, names, num(k), " ".join(num(x) for x in c), t)
        ml.append("M.restr %s linear %d %s k=%s centers=%s" % (name, nd, names, fbits(k), ",".join(fbits(x) for x in c)))
        PARAMS[name] = ("linear", k, c)
    elif kind == "walls":
        k = rng.choice([1.0, 4.0]); lw = [rng.uniform(-1.5, -0.2) for _ in range(nd)]; uw = [rng.uniform(0.2, 1.5) for _ in range(nd)]
        conf = "harmonicWalls {\n name %s\n colvars %s\n forceConstant %s\n lowerWalls %s\n upperWalls %s\n%s}\n" % (
            name, names, num(k), " ".join(num(x) for x in lw), " ".join(num(x) for x in uw), t)
        ml.append("M.restr %s walls %d %s k=%s lw=%s uw=%s lk=%s uk=%s" % (name, nd, names, fbits(k), ",".join(fbits(x) for x in lw),
                                                                         ",".join(fbits(x) for x in uw), fbits(1.0), fbits(1.0)))
        PARAMS[name] = ("walls", k, lw, uw)
    elif kind == "histogram":
        conf = "histogram {\n name %s\n colvars %s\n%s}\n" % (name, names, t)
        ml.append("M.hist %s 0 %d %s %s %s %s" % (name, nd, names, " ".join(fbits(-3.0) for _ in cvs), " ".join(fbits(3.0) for _ in cvs),
                                                  " ".join(fbits(x) for x in w)))
    elif kind == "meta":
        wt = rng.choice([0.1, 0.5]); fr = rng.randint(1, 3); hw = 2.0
        conf = "metadynamics {\n name %s\n colvars %s\n hillWeight %s\n newHillFrequency %d\n hillWidth %s\n useGrids off\n%s}\n" % (
            name, names, num(wt), fr, num(hw), t)
        ml.append("M.meta %s %d %s weight=%s freq=%d sigmas=%s hillwidth=%s grids=0 gridsfreq=0 keephills=0 wt=0 tkb=%s lo= hi= expand=%s gper=%s" % (
            name, nd, names, fbits(wt), fr, ",".join(fbits(x * hw / 2.0) for x in w), fbits(hw), fbits(300 * KB),
            ",".join("0" for _ in cvs), ",".join("0" for _ in cvs)))
    if tsf > 1:
        ml.append("M.tsf %s %d" % (name, tsf))
    return conf, ml


def radial_case(rng, k):
    """a variable with its own time-step factor and a Jacobian term: distance of one atom from the origin (atom kept on the z axis)"""
    n = rng.choice([1, 2, 3, 4]) if k % 2 else rng.choice([2, 3])
    mode = ["hide", "abf", "plain"][(k // 6) % 3]       # ABF with hideJacobian / ABF without / no ABF (no Jacobian term at all)
    T = rng.choice([300.0, 450.0, 1000.0]); kT = KB * T
    w = rng.choice([0.5, 1.0]); kf = rng.choice([0.5, 2.0, 10.0]); c = rng.uniform(1.0, 4.0)
    tl = (" timeStepFactor %d\n" % n) if n > 1 else ""
    conf = ("colvar {\n name d\n" + tl + " width %s\n lowerBoundary 0.25\n upperBoundary 8.25\n distance {\n  group1 { atomNumbers 1 }\n"
            "  group2 { dummyAtom (0.0, 0.0, 0.0) }\n  oneSiteTotalForce on\n }\n}\n") % num(w)
    bconf = "harmonic {\n name hb\n" + tl + " colvars d\n forceConstant %s\n centers %s\n}\n" % (num(kf), num(c))
    if mode != "plain":
        bconf += "abf {\n name ab\n" + tl + " colvars d\n fullSamples 1000000\n integrate off\n%s}\n" % (" hideJacobian on\n" if mode == "hide" else "")
    it0 = 0 if k % 4 < 2 else rng.randint(1, 9)
    nsteps = 3 * n + 2 + rng.randint(0, 4)
    lines = ["m.new 1", "m.opt tf_same 1", "m.opt temp %s" % fbits(T), cfg(conf), cfg(bconf),
             "V.radial d 0 kT=%s tsf=%d jac=%d hide=%d k=%s c=%s w=%s" % (fbits(kT), n, 0 if mode == "plain" else 1, 1 if mode == "hide" else 0,
                                                                       fbits(kf), fbits(c), fbits(w))]
    if it0:
        lines.append("m.opt it %d" % it0)
    z = rng.uniform(1.0, 5.0) * rng.choice([-1.0, 1.0])
    traj = []; marks = []
    for t in range(nsteps):
        z += rng.uniform(-0.3, 0.3)
        if abs(z) < 0.6:
            z = 0.6 if z > 0 else -0.6
        lines += [pos(0, 0.0, 0.0, z), tf(0, rng.uniform(-2, 2), rng.uniform(-2, 2), rng.uniform(-2, 2)), "m.step"]
        marks.append(len(lines) + 1)
        lines.append("v.force d 0")
        traj.append(z)
    return {"lines": lines, "meta": {"family": "radial", "n": n, "mode": mode, "kT": kT, "w": w, "k": kf, "c": c, "it0": it0, "traj": traj,
                                     "marks": marks, "nsteps": nsteps}, "nontrivial": n > 1}


def radial_oracle(case, out):
    m = case["meta"]; n = m["n"]
    for t, z in enumerate(m["traj"]):
        it = m["it0"] + t
        d = abs(z); sgn = 1.0 if z > 0 else -1.0
        inst = -m["k"] / (m["w"] ** 2) * (d - m["c"]) - (2.0 * m["kT"] / d if m["mode"] == "hide" else 0.0)
        exp = n * inst * sgn if (n <= 1 or it % n == 0) else 0.0
        rc = out.get((m["marks"][t] - 1, "rc", 1))
        if rc is None or rc[0] != "i0":
            return ["the library reported an error at step %d of a valid configuration (variable with time-step factor %d, %s)" % (t, n, m["mode"])]
        v = vals(out, m["marks"][t], "vfz")
        if v is None:
            return ["no force reported for the variable at step %d" % t]
        if abs(v[0] - exp) > 1e-9 * max(1.0, abs(exp)):
            return ["step %d (absolute %d): the atom of a variable with time-step factor %d (%s) got the z-force %r; %d x (restraint force%s) at this "
                    "geometry is %r, so the impulse over %d steps is not that of an every-step application" % (
                        t, it, n, {"hide": "ABF with hideJacobian", "abf": "ABF", "plain": "no ABF"}[m["mode"]], v[0], n if (n <= 1 or it % n == 0) else 0,
                        " - 2kT/d" if m["mode"] == "hide" else "", exp, n)]
    return []


def gen(rng, tier):
    n = 30 if tier == "quick" else 300
    cases = []
    for k in range(n):
        if k % 6 == 5 or k % 6 == 2:
            cases.append(radial_case(rng, k)); continue
        ncv = rng.randint(1, 3)
        w = [rng.choice([0.5, 1.0]) for _ in range(ncv)]
        with_abf = (k % 5) == 3
        sub = with_abf
        cvconf = "".join(inj_cv("x%d" % i, i, -3.0, 3.0, w[i], extra="  subtractAppliedForce on\n" if sub else "") for i in range(ncv))
        mcv = ["M.cv x%d %d %s %s %s %d" % (i, i, fbits(w[i]), fbits(0.0), fbits(0.0), 1 if sub else 0) for i in range(ncv)]
        nb = rng.randint(2, 4)
        kinds = ["harmonic", "walls", "linear", "histogram", "meta"]
        biases = []
        for j in range(nb):
            kind = kinds[(k + j * 2) % 5] if j > 0 or not with_abf else "abf"
            m = rng.randint(1, min(2, ncv))
            cvs = ["x%d" % i for i in sorted(rng.shuffle(list(range(ncv)))[:m])]
            if with_abf and j == 1 and k % 10 == 3:
                # walls inside the ABF grid on the ABF variable: their force reaches the atoms through the bypassing path (fb_actual) and is
                # part of the applied force that subtractAppliedForce removes from the total force ABF reads
                kind = "walls"; cvs = ["x0"]
            tsf = rng.choice([1, 1, 2, 3, 4]) if not with_abf else 1
            name = "b%d" % j
            if kind == "abf":
                cvs = ["x0"]
                apply_b = rng.rand() < 0.7
                conf = "abf {\n name %s\n colvars x0\n fullSamples 2\n integrate off\n%s}\n" % (name, "" if apply_b else " applyBias off\n")
                ml = ["M.abf %s 1 x0 %s %s %s 2 1 %d 1 0 0 0 %s" % (name, fbits(-3.0), fbits(3.0), fbits(w[0]), 1 if apply_b else 0, fbits(0.0))]
            else:
                conf, ml = bias_conf(rng, kind, name, cvs, [w[int(c[1:])] for c in cvs], tsf)
            biases.append({"kind": kind, "name": name, "cvs": cvs, "tsf": tsf, "conf": conf, "ml": ml, "par": PARAMS.pop(name, None),
                           "nonbiasing": kind == "histogram" or (kind == "abf" and not apply_b)})
        maxn = max(b["tsf"] for b in biases)
        nsteps = 3 * maxn + 2 + rng.randint(0, 4)
        traj = []
        cur = [rng.uniform(-2, 2) for _ in range(ncv)]
        abf_walls = with_abf and any(b["kind"] == "walls" for b in biases)
        if abf_walls:
            # stay inside the ABF grid and beyond a wall for a while: ABF must collect enough samples there to apply a force of its own
            nsteps += 14
            cur[0] = [b for b in biases if b["kind"] == "walls"][0]["par"][3][0] + 0.3
        for s_ in range(nsteps):
            for i in range(ncv):
                if abf_walls and i == 0:
                    cur[i] += rng.uniform(-0.12, 0.12); continue
                cur[i] += rng.uniform(-0.8, 0.8)
            traj.append((list(cur), [rng.uniform(-4, 4) for _ in range(ncv)]))
        split = rng.randint(1, nb - 1)
        if abf_walls:
            split = 1          # ABF alone in one part, the walls in the other: the coupling through the subtracted applied force is what is compared
        # the first step of the run need not be 0 (nor a multiple of the time-step factors)
        it0 = 0 if (k % 3) != 1 else rng.randint(1, 9)
        groups = {"AB": biases, "A": biases[:split], "B": biases[split:]}
        lines = []
        marks = {}
        for g in ("AB", "A", "B"):
            # the engine tells its first step before or after the configuration is read (both happen: NAMD / LAMMPS set it late, a
            # scripted restart sets it first); in a third of the cases one bias is defined in mid-run instead (see below)
            early = it0 and (k % 2 == 1)
            lines += ["m.new %d" % ncv, "m.opt tfloop 1"] + (["m.opt it %d" % it0] if early else []) + [cfg(cvconf)] + [cfg(b["conf"]) for b in groups[g]] + mcv
            if it0 and not early:
                lines.append("m.opt it %d" % it0)
            for b in groups[g]:
                lines += b["ml"]
            marks[g] = []
            for (xs, fs) in traj:
                for i in range(ncv):
                    lines.append(pos(i, 0.0, 0.0, xs[i])); lines.append(tf(i, 0.0, 0.0, fs[i]))
                lines.append("m.step")
                marks[g].append(len(lines))
                lines.append("m.forces")
        cases.append({"lines": lines, "meta": {"ncv": ncv, "biases": [(b["kind"], b["cvs"], b["tsf"]) for b in biases], "split": split, "w": w,
                                                "par": [b["par"] for b in biases], "traj": [t_[0] for t_ in traj],
                                                "nonbiasing": [b["nonbiasing"] for b in biases], "it0": it0,
                                                "nsteps": nsteps, "marks": marks},
                      "nontrivial": sum(1 for b in biases if b["kind"] != "histogram") >= 2})
    return cases


def distribution(cases):
    d = {"kinds": {}, "tsf": {}, "abf_cases": 0, "steps": 0, "radial": {}}
    for c in cases:
        m = c["meta"]
        if m.get("family") == "radial":
            key = "%s/n=%d" % (m["mode"], m["n"]); d["radial"][key] = d["radial"].get(key, 0) + 1; d["steps"] += m["nsteps"]
            continue
        if "biases" not in m:
            continue
        for kind, cvs, tsf in m["biases"]:
            d["kinds"][kind] = d["kinds"].get(kind, 0) + 1; d["tsf"][tsf] = d["tsf"].get(tsf, 0) + 1
        d["abf_cases"] += int(any(b[0] == "abf" for b in m["biases"])); d["steps"] += 3 * m["nsteps"]
    return d


def vals(out, ln, tag):
    v = out.get((ln, tag, 1))
    return None if v is None else [tok_val(t)[1] for t in v]


def oracle(case, out):
    """(A+B) = A + B on the implementation itself: energy and per-atom force at every step; a bias with factor n contributes only on
    multiples of n"""
    m = case["meta"]; viol = []
    if m.get("family") == "radial":
        return radial_oracle(case, out)
    # impulse: a group made only of stateless restraints must apply sum_b [t % n_b == 0] n_b F_b(x(t)) (closed forms)
    stateless = ("harmonic", "linear", "walls")
    groups = {"AB": list(range(len(m["biases"]))), "A": list(range(m["split"])), "B": list(range(m["split"], len(m["biases"])))}
    nonb = m.get("nonbiasing", [False] * len(m["biases"]))
    for g, idx in groups.items():
        # closed forms exist when every bias of the group is a stateless restraint or is declared non-biasing
        # (histogram, applyBias off): the latter contribute neither force nor energy
        if not all(m["biases"][j][0] in stateless or nonb[j] for j in idx):
            continue
        for t in range(m["nsteps"]):
            exp = [0.0] * m["ncv"]
            e_exp = 0.0
            for j in idx:
                kind, cvs, n = m["biases"][j]; par = m["par"][j]
                if nonb[j] or (t + m.get("it0", 0)) % n != 0:
                    continue
                for q, cvn in enumerate(cvs):
                    a = int(cvn[1:]); x = m["traj"][t][a]; w = m["w"][a]
                    if kind == "harmonic":
                        fq = -par[1] / (w * w) * (x - par[2][q]); e_exp += 0.5 * par[1] / (w * w) * (x - par[2][q]) ** 2
                    elif kind == "linear":
                        fq = -par[1] / w; e_exp += par[1] / w * (x - par[2][q])
                    else:
                        d = (x - par[2][q]) if x < par[2][q] else ((x - par[3][q]) if x > par[3][q] else 0.0)
                        fq = -par[1] / (w * w) * d; e_exp += 0.5 * par[1] / (w * w) * d * d
                    exp[a] += n * fq
            ln = m["marks"][g][t]
            for a in range(m["ncv"]):
                fv = vals(out, ln + 1, "f%d" % a)
                if fv is None or abs(fv[2] - exp[a]) > 1e-9 * max(1.0, abs(exp[a])):
                    viol.append("step %d atom %d: applied force %r, but biases awake at this step times their time-step factors give %r (impulse not conserved)" % (t, a, fv, exp[a]))
                    return viol
            ev = vals(out, ln, "energy")
            if ev is None or abs(ev[0] - e_exp) > 1e-9 * max(1.0, abs(e_exp)):
                viol.append("step %d: energy reported to the engine %r, but the biases that are awake and biasing at this step (%s) have energies summing to %r"
                            % (t, ev, ", ".join("%s/%d" % (m["biases"][j][0], m["biases"][j][2]) + ("(non-biasing)" if nonb[j] else "") for j in idx), e_exp))
                return viol
    for t in range(m["nsteps"]):
        e = {}; f = {}
        for g in ("AB", "A", "B"):
            ln = m["marks"][g][t]
            ev = vals(out, ln, "energy")
            if ev is None:
                return ["no energy for run %s step %d" % (g, t)]
            e[g] = ev[0]
            f[g] = [vals(out, ln + 1, "f%d" % a) for a in range(m["ncv"])]
        if abs(e["AB"] - (e["A"] + e["B"])) > 1e-9 * max(1.0, abs(e["AB"])):
            viol.append("step %d: energy of the bias set %r differs from the sum of its parts %r + %r" % (t, e["AB"], e["A"], e["B"]))
            return viol
        for a in range(m["ncv"]):
            if f["AB"][a] is None or f["A"][a] is None or f["B"][a] is None:
                return ["missing forces"]
            for c3 in range(3):
                s = f["A"][a][c3] + f["B"][a][c3]
                if abs(f["AB"][a][c3] - s) > 1e-9 * max(1.0, abs(s)):
                    viol.append("step %d atom %d: force applied by the bias set %r differs from the sum of the forces of its parts %r" % (t, a, f["AB"][a][c3], s))
                    return viol
    return viol
