"""C09 — configuration parsing is total, strict and independent of layout."""
import os, re
from cvlib import fbits, bits_to_f, tok_val, esc
from cvscen import cfg, pos, tf, num

RULE = ("(a) key_lookup / check_braces on random strings over an alphabet rich in delimiters, braces, newlines and keyword fragments, "
        "and on mutated fragments of real configurations, compared with the Lean mirror (found / value / resume position); "
        "(b) layout rewrites of valid configurations (keyword case, spaces/tabs, blank lines, comments, CRLF, brace-delimited values "
        "split over lines, boolean shorthand) must give bit-identical energies and forces; (c) keyword-level mutations (misspelt, "
        "wrong context, missing value, text for a number, unmatched brace) must be rejected; (d) random byte strings must return; "
        "after every rejected configuration a valid one must behave as in a fresh module; non-trivial = string contains the key; distinct by op text")
ASSUMPTIONS = ["typed value extraction (libstdc++ operator>>) is not modelled: covered by the accept/reject and bit-identity oracles only"]

BASE = [
    ("colvar {\n  name d\n  width 0.5\n  lowerBoundary 0.0\n  upperBoundary 10.0\n  distance {\n    group1 { atomNumbers 1 2 }\n    group2 { atomNumbers 3 4 }\n  }\n}\n"
     "harmonic {\n  name h\n  colvars d\n  centers 3.0\n  forceConstant 2.5\n  outputEnergy on\n}\n"),
    ("colvar {\n  name a\n  angle {\n    group1 { atomNumbers 1 }\n    group2 { atomNumbers 2 3 }\n    group3 { atomNumbers 4 }\n  }\n}\n"
     "harmonicWalls {\n  name w\n  colvars a\n  upperWalls 100.0\n  forceConstant 0.1\n}\n"),
    ("colvarsTrajFrequency 0\ncolvar {\n  name z\n  distanceZ {\n    main { atomNumbers 1 2 }\n    ref { atomNumbers 3 }\n    axis (0.0, 0.0, 1.0)\n  }\n}\n"
     "linear {\n  name l\n  colvars z\n  centers 0.5\n  forceConstant 1.5\n}\n"),
    # a boolean keyword that changes the numbers, last in its block (written in shorthand / with the closing brace on its line by the rewriter)
    ("colvar {\n  name cn\n  coordNum {\n    cutoff 3.0\n    group1 { atomNumbers 1 2 }\n    group2 { atomNumbers 3 4 }\n    group2CenterOnly on\n  }\n}\n"
     "harmonic {\n  name hcn\n  colvars cn\n  centers 1.0\n  forceConstant 2.0\n}\n"),
    # biases on two variables: lists with one value per variable
    ("colvar {\n  name p\n  distance {\n    group1 { atomNumbers 1 }\n    group2 { atomNumbers 2 }\n  }\n}\n"
     "colvar {\n  name q\n  distance {\n    group1 { atomNumbers 3 }\n    group2 { atomNumbers 4 }\n  }\n}\n"
     "harmonic {\n  name h2\n  colvars p q\n  centers 3.0 2.0\n  forceConstant 1.5\n}\n"
     "harmonicWalls {\n  name w2\n  colvars p q\n  lowerWalls 1.0 1.5\n  upperWalls 5.0 6.0\n  forceConstant 0.2\n}\n"),
]
NATOMS = 4


def hexs(s):
    b = s.encode("latin-1", "replace")
    return b.hex() if b else "-"


def rewrite_layout(rng, conf):
    """a configuration that differs only in the documented free aspects of the syntax"""
    out = []
    for line in conf.split("\n"):
        if not line.strip():
            out.append(line); continue
        m = re.match(r"^(\s*)([A-Za-z0-9]+)(.*)$", line)
        if m:
            ind, kw, rest = m.groups()
            r = rng.rand()
            if r < 0.3:
                kw = kw.upper()
            elif r < 0.5:
                kw = kw.lower()
            elif r < 0.6:
                kw = "".join(c.upper() if rng.rand() < 0.5 else c.lower() for c in kw)
            ind = rng.choice(["", " ", "\t", "    ", " \t "])
            # more space between keyword and value
            if rest.startswith(" ") and rng.rand() < 0.5:
                rest = rng.choice(["  ", "\t", " \t  "]) + rest.lstrip(" ")
            # boolean shorthand
            if rest.strip() == "on" and rng.rand() < 0.5:
                rest = rng.choice(["", " yes", " true", " on"])
            line = ind + kw + rest
        if rng.rand() < 0.2:
            line = line + rng.choice(["  ", "\t", " # a comment", "#x { } colvars"])
        out.append(line)
        if rng.rand() < 0.15:
            out.append(rng.choice(["", "   ", "# comment line with keywords name width", "\t"]))
    s = "\n".join(out)
    # the closing brace of a block on the line of its last keyword (with or without a blank before it)
    if rng.rand() < 0.6:
        ls = s.split("\n"); j = 0; joined = []
        while j < len(ls):
            cur = ls[j]
            if (j + 1 < len(ls) and ls[j + 1].strip() == "}" and cur.strip() and "#" not in cur and not cur.strip().endswith("{")
                    and not cur.strip().endswith("}") and rng.rand() < 0.5):
                joined.append(cur.rstrip() + rng.choice([" }", "}", "\t}"])); j += 2
            else:
                joined.append(cur); j += 1
        s = "\n".join(joined)
    # split a brace-delimited value over lines
    if rng.rand() < 0.5:
        s = re.sub(r"\{ atomNumbers ([0-9 ]+) \}", lambda m_: "{\n      atomNumbers %s\n   }" % m_.group(1), s, count=rng.randint(1, 2))
    if rng.rand() < 0.3:
        s = s.replace("\n", "\r\n")
    return s


MUT_KINDS = ["misspell", "context", "novalue", "text", "brace", "brace2", "trailing", "glued", "among", "fewer", "more"]


def mutate_keyword(rng, conf, kind=None):
    """a keyword-level mutation that must be rejected"""
    kind = kind or rng.choice(MUT_KINDS)
    lines = conf.split("\n")
    idx = [i for i, l in enumerate(lines) if re.match(r"^\s+(name|width|centers|forceConstant|colvars|upperWalls|lowerBoundary)\b", l)]
    if kind == "misspell":
        i = rng.choice(idx)
        lines[i] = re.sub(r"(name|width|centers|forceConstant|colvars|upperWalls|lowerBoundary)", lambda m_: m_.group(1) + "x", lines[i], count=1)
    elif kind == "context":
        i = rng.choice([j for j, l in enumerate(lines) if l.strip().startswith("name")])
        lines.insert(i + 1, "  " + rng.choice(["hillWeight 0.1", "atomNumbers 1 2", "newHillFrequency 10", "fullSamples 3"]))
    elif kind == "novalue":
        i = rng.choice([j for j, l in enumerate(lines) if re.match(r"^\s+(centers|colvars|forceConstant|upperWalls)\b", l)])
        lines[i] = re.sub(r"^(\s+\w+).*$", r"\1", lines[i])
        if "forceConstant" in lines[i] or "upperWalls" in lines[i]:
            lines[i] = lines[i].replace("forceConstant", "centers").replace("upperWalls", "colvars")
    elif kind == "text":
        cand = [j for j, l in enumerate(lines) if re.match(r"^\s+(centers|forceConstant|width|upperWalls)\s", l)]
        i = rng.choice(cand)
        lines[i] = re.sub(r"^(\s+\w+)\s+.*$", r"\1 abc", lines[i])
    elif kind in ("trailing", "glued"):
        # text after (or glued to) a valid number where only a number is allowed
        cand = [j for j, l in enumerate(lines) if re.match(r"^\s+(forceConstant|width)\s+\S+\s*$", l)]
        i = rng.choice(cand)
        lines[i] = lines[i].rstrip() + (" abc" if kind == "trailing" else "abc")
    elif kind in ("fewer", "more"):
        # a list with one value per variable given one value too few / too many
        cand = [j for j, l in enumerate(lines) if re.match(r"^\s+(centers|upperWalls|lowerWalls)\s+\S+\s+\S+\s*$", l)]
        # (centers is read into a list already sized to the number of variables; walls are sized afterwards: both paths)
        cc = [j for j in cand if "centers" in lines[j]]
        if cc and rng.rand() < 0.7:
            cand = cc
        if not cand:
            return mutate_keyword(rng, conf, rng.choice(MUT_KINDS[:9]))
        i = rng.choice(cand)
        lines[i] = re.sub(r"\s+\S+\s*$", "", lines[i]) if kind == "fewer" else lines[i].rstrip() + " 7.0"
    elif kind == "among":
        # text among the numbers of a list: what follows must not be dropped silently
        cand = [j for j, l in enumerate(lines) if re.match(r"^\s+(centers|upperWalls)\s", l)]
        i = rng.choice(cand)
        lines[i] = lines[i].rstrip() + " abc 1.0"
    elif kind == "brace":
        i = rng.choice([j for j, l in enumerate(lines) if l.strip() == "}"])
        del lines[i]
    else:
        i = rng.choice([j for j, l in enumerate(lines) if l.rstrip().endswith("{")])
        lines[i] = lines[i].rstrip()[:-1]
    return "\n".join(lines), kind


def steps(rng):
    L = []
    P = [[rng.uniform(-2, 2) + 2.5 * a for _ in range(3)] for a in range(NATOMS)]
    for _ in range(2):
        P = [[x + rng.uniform(-0.2, 0.2) for x in p] for p in P]
        for a in range(NATOMS):
            L.append(pos(a, P[a][0], P[a][1], P[a][2]))
        L += ["m.step", "m.forces"]
    return L


def gen(rng, tier):
    cases = []
    # (a) unit level
    n = 400 if tier == "quick" else 8000
    alpha = list("ab k{}\n\t #") + ["key", "Key", "KEY", " key ", "\nkey", "key{", "}key", "key\n", "{ x }", "{\n", "\n}", "keyx", "xkey"]
    for k in range(n):
        if k % 3 == 0:
            base = rng.choice(BASE)
            a = rng.randint(0, len(base) - 1); b = min(len(base), a + rng.randint(5, 120))
            s = base[a:b]
            key = rng.choice(["name", "colvars", "centers", "group1", "atomNumbers", "distance", "width", "forceConstant", "harmonic", "axis"])
            if rng.rand() < 0.3:
                key = key.upper()
        else:
            s = "".join(rng.choice(alpha) for _ in range(rng.randint(0, 14)))
            key = rng.choice(["key", "Key", "k", "a", "ab"])
        start = 0 if rng.rand() < 0.8 else rng.randint(0, max(0, len(s)))
        lines = ["m.new 2", "p.lookup %s %s %d" % (hexs(s), hexs(key), start), "p.braces %s %d" % (hexs(s), rng.randint(0, len(s) + 1))]
        cases.append({"lines": lines, "meta": {"kind": "unit", "conf": s, "key": key}, "nontrivial": key.lower() in s.lower()})
    # (b) layout rewrites
    m = 12 if tier == "quick" else 120
    for k in range(m):
        base = BASE[k % len(BASE)]
        r2 = rng.fork()
        st = steps(r2)
        lines = []
        marks = []
        variants = [base] + [rewrite_layout(rng, base) for _ in range(3)]
        for v in variants:
            lines += ["m.new %d" % NATOMS, "M.noclock", cfg(v)]
            marks.append(len(lines))
            lines += st
        cases.append({"lines": lines, "meta": {"kind": "layout", "marks": marks, "nsteps": 2, "variants": variants[1:]}, "nontrivial": True})
    # (c) keyword mutations, followed by the valid configuration in the same module and in a fresh one
    for k in range(m * 2):
        want = MUT_KINDS[k % len(MUT_KINDS)]          # every kind of mutation in turn
        base = BASE[-1] if want in ("fewer", "more") else BASE[k % len(BASE)]
        bad, kind = mutate_keyword(rng, base, want)
        r2 = rng.fork()
        st = steps(r2)
        lines = ["m.new %d" % NATOMS, "M.noclock", cfg(bad)]
        bad_line = len(lines)
        lines += ["m.scriptq cv reset", cfg(base)]
        ok_line = len(lines)
        lines += st
        first = len(lines) - len(st) + 1
        lines += ["m.new %d" % NATOMS, "M.noclock", cfg(base)]
        lines += st
        second = len(lines) - len(st) + 1
        cases.append({"lines": lines, "meta": {"kind": "mutation", "mut": kind, "bad_line": bad_line, "ok_line": ok_line, "first": first, "second": second,
                                                "nlines": len(st), "bad": bad}, "nontrivial": True})
    # (c') rejected configuration, then the corrected one WITHOUT reset
    for k in range(m):
        want = MUT_KINDS[(k + 5) % len(MUT_KINDS)]
        base = BASE[-1] if want in ("fewer", "more") else BASE[k % len(BASE)]
        bad, kind = mutate_keyword(rng, base, want)
        r2 = rng.fork()
        st = steps(r2)
        lines = ["m.new %d" % NATOMS, "M.noclock", cfg(bad)]
        bad_line = len(lines)
        # delete whatever survived the rejected configuration, object by object, then feed the corrected text
        lines += ["m.scriptq cv colvar %s delete" % nm for nm in ("d", "a", "z", "p", "q", "cn")] + [cfg(base)]
        ok_line = len(lines)
        lines += st
        first = len(lines) - len(st) + 1
        lines += ["m.new %d" % NATOMS, "M.noclock", cfg(base)]
        lines += st
        second = len(lines) - len(st) + 1
        cases.append({"lines": lines, "meta": {"kind": "mutation", "mut": kind + "+noreset", "bad_line": bad_line, "ok_line": ok_line, "first": first,
                                                "second": second, "nlines": len(st), "bad": bad}, "nontrivial": True})
    # (d) random bytes
    nb = 60 if tier == "quick" else 1500
    for k in range(nb):
        ln = rng.randint(0, 200)
        if rng.rand() < 0.5:
            s = "".join(chr(rng.randint(1, 255)) for _ in range(ln))
        else:
            base = rng.choice(BASE)
            b = bytearray(base.encode())
            for _ in range(rng.randint(1, 8)):
                i = rng.randint(0, len(b) - 1)
                r = rng.rand()
                if r < 0.4:
                    b[i] = rng.randint(1, 255)
                elif r < 0.7:
                    del b[i]
                else:
                    b.insert(i, ord(rng.choice("{}#\n\t ")))
            s = b.decode("latin-1")
        s = s.replace("\x00", " ")
        enc = "".join(("\\x%02x" % ord(c)) if (ord(c) < 33 or ord(c) > 126 or c == "\\") else c for c in s)
        lines = ["m.new %d" % NATOMS, "M.noclock", "m.cfg " + enc] + steps(rng.fork())[:6]
        cases.append({"lines": lines, "meta": {"kind": "bytes"}, "nontrivial": True})
    return cases


def distribution(cases):
    d = {}
    for c in cases:
        k = c["meta"].get("kind", "corpus")
        if k == "mutation":
            k = "mutation:" + c["meta"]["mut"]
        d[k] = d.get(k, 0) + 1
    return d


def vals(out, ln, tag):
    v = out.get((ln, tag, 1))
    return None if v is None else [tok_val(t)[1] for t in v]


def oracle(case, out):
    m = case["meta"]; viol = []
    if m["kind"] == "layout":
        ref = None
        for vi, mk in enumerate(m["marks"]):
            rc = vals(out, mk, "rc")
            if rc is None or rc[0] != 0:
                viol.append("a layout-only rewrite of a valid configuration was rejected: %r" % (m["variants"][vi - 1][:200] if vi else "base"))
                return viol
            sig = []
            for s in range(m["nsteps"]):
                base = mk + NATOMS * (s + 1) + 2 * s + 1
                sig.append(out.get((base, "energy", 1)))
                for a in range(NATOMS):
                    sig.append(out.get((base + 1, "f%d" % a, 1)))
            if ref is None:
                ref = sig
            elif sig != ref:
                viol.append("a layout-only rewrite changes the results bit-wise: %r" % m["variants"][vi - 1][:300])
                return viol
    elif m["kind"] == "mutation":
        rc = vals(out, m["bad_line"], "rc")
        if rc is None:
            return ["no result for the mutated configuration"]
        if rc[0] == 0:
            viol.append("a configuration with a %s error was accepted: %r" % (m["mut"], m["bad"][:300]))
            return viol
        rc2 = vals(out, m["ok_line"], "rc")
        if rc2 is None or rc2[0] != 0:
            viol.append("after a rejected configuration (%s) the valid configuration is refused" % m["mut"])
            return viol
        for j in range(m["nlines"]):
            for tag in ("energy", "f0", "f1", "f2", "f3"):
                a = out.get((m["first"] + j, tag, 1)); b = out.get((m["second"] + j, tag, 1))
                if a != b:
                    viol.append("after a rejected configuration (%s) the module does not behave like a fresh one (%s: %r vs %r)" % (m["mut"], tag, a, b))
                    return viol
    return viol
