"""C14 — multiple-walker sharing combines every walker's data exactly once."""
import os, shutil, subprocess, json
import cvbuild, cvlib
from cvlib import fbits, tok_val, esc
from cvscen import inj_cv, cfg, pos, tf, num

RULE = ("shared ABF: 2-4 walkers, each a separate process of the real library talking through the engine's replica messages, "
        "6-10 bins, sharedFreq 3-6, 2-4 exchanges, samples in random bins (some outside the grid), optional stop / resume of one "
        "walker at an exchange step with or without a sample recorded at that step; after every exchange each walker's grids "
        "and its own-contribution grids are compared with the model and recounted independently. Multiple-walker metadynamics: "
        "2-3 walkers as processes whose steps are interleaved by token files in a generated global order, peers' files read at "
        "replicaUpdateFrequency, one peer's hills file truncated in mid-record; each walker's bias is compared with the sum over "
        "the hills its peers had completely written when it last read them; non-trivial = at least two walkers sampled the same bin; "
        "distinct by scenario text")
ASSUMPTIONS = ["walkers of shared ABF advance in lock step (same step numbers), as the blocking exchange of the library requires",
               "the interleavings explored for metadynamics are total orders of whole steps (a step of the library is not preempted)"]


def gen(rng, tier):
    # the multi-process experiments are run by `extra`; one in-process case keeps the pipeline's shape
    return [{"lines": ["m.new 1", "M.noclock", cfg(inj_cv("x0", 0, -1.0, 1.0, 0.5)), pos(0, 0, 0, 0.2), "m.step"], "meta": {"kind": "placeholder"}, "nontrivial": True}]


def oracle(case, out):
    return []


def abf_conf(lo, nb, F):
    return (inj_cv("x0", 0, lo, lo + 0.5 * nb, 0.5),
            "abf {\n name b\n colvars x0\n fullSamples 1\n shared on\n sharedFreq %d\n}\n" % F)


def shared_scenario(rng, work, idx):
    n = rng.randint(2, 4); nb = rng.randint(6, 10); F = rng.randint(3, 6); E = rng.randint(2, 4)
    lo = -1.0
    cvc, bc = abf_conf(lo, nb, F)
    comm = os.path.join(work, "comm%d" % idx); os.makedirs(comm, exist_ok=True)
    restart_w = rng.randint(0, n - 1) if rng.rand() < 0.6 else -1
    restart_k = rng.randint(1, E - 1) if E > 1 else 1
    restart_pending = rng.rand() < 0.5
    steps = E * F
    # per walker, per step: (bin or None, force)
    plan = []
    for w in range(n):
        row = [None]
        for s in range(1, steps + 1):
            b = rng.randint(0, nb - 1) if rng.rand() < 0.85 else None
            if w == restart_w and s == restart_k * F:
                b = rng.randint(0, nb - 1) if restart_pending else None
            row.append((b, rng.uniform(-4, 4)))
        plan.append(row)
    files = []; dump_lines = {}
    for w in range(n):
        head = ["m.new 1", "m.opt tf_same 1", "m.opt tfloop 0", "m.opt replicas %d %d %s" % (w, n, comm), "M.noclock", cfg(cvc), cfg(bc)]
        L = list(head)
        L += [pos(0, 0.0, 0.0, 0.1), tf(0, 0.0, 0.0, 0.0), "m.step"]        # step 0: nothing recorded
        for s in range(1, steps + 1):
            b, f = plan[w][s]
            z = lo + 0.5 * (b + 0.5) if b is not None else lo - 0.7
            L += [pos(0, 0.0, 0.0, z), tf(0, 0.0, 0.0, f), "m.step"]
            if s % F == 0:
                L.append("a.dump b"); dump_lines[(w, s // F)] = len(L)
                if w == restart_w and s == restart_k * F:
                    pfx = os.path.join(work, "st%d_%d" % (idx, w))
                    L += ["m.save " + pfx] + head + ["m.load " + pfx, pos(0, 0.0, 0.0, z), tf(0, 0.0, 0.0, f), "m.step"]
        f_ = os.path.join(work, "w%d_%d.txt" % (idx, w))
        open(f_, "w").write("\n".join(L) + "\n")
        files.append(f_)
    # the same history for the model, as one global sequence
    G = ["W.new %d %d" % (n, nb)]
    mdump = {}
    order = list(range(n))
    for k in range(1, E + 1):
        # samples of steps (k-1)F+1 .. kF-1 of all walkers, interleaved at random (each walker's own order kept)
        pend2 = [w for w in range(n) for _ in range(F - 1)]
        rng.shuffle(pend2)
        cursor = {w: (k - 1) * F + 1 for w in range(n)}
        for w in pend2:
            s = cursor[w]; cursor[w] += 1
            b, f = plan[w][s]
            if b is not None:
                G.append("W.sample %d %d %s" % (w, b, fbits(f)))
        G.append("W.exchange")
        for w in range(n):
            b, f = plan[w][k * F]
            if b is not None:
                G.append("W.sample %d %d %s" % (w, b, fbits(f)))
        for w in range(n):
            G.append("W.dump %d" % w); mdump[(w, k)] = len(G)
        if restart_w >= 0 and k == restart_k:
            G.append("W.restart %d" % restart_w)
    gfile = os.path.join(work, "g%d.txt" % idx)
    open(gfile, "w").write("\n".join(G) + "\n")
    return {"n": n, "nb": nb, "F": F, "E": E, "plan": plan, "files": files, "gfile": gfile, "dump": dump_lines, "mdump": mdump,
            "restart": (restart_w, restart_k, restart_pending), "comm": comm}


def tally(nb, samples):
    c = [0] * nb; g = [0.0] * nb
    for b, f in samples:
        c[b] += 1; g[b] -= f
    return c, g


def run_walkers(exe, files, timeout=180):
    procs = [subprocess.Popen([exe, f], stdout=subprocess.PIPE, stderr=subprocess.DEVNULL, text=True, errors="replace") for f in files]
    outs = []
    for p in procs:
        try:
            o, _ = p.communicate(timeout=timeout)
            outs.append((p.returncode, o))
        except subprocess.TimeoutExpired:
            p.kill(); outs.append(("timeout", ""))
    return outs


def getv(po, ln, tag):
    v = po.get((ln, tag, 1))
    return None if v is None else [tok_val(t)[1] for t in v]


def close(a, b):
    return abs(a - b) <= 1e-9 + 1e-9 * max(abs(a), abs(b))


def check_shared(rep, sc, outs, mout, idx, seed):
    """returns number of compared dumps"""
    n, nb, F, E, plan = sc["n"], sc["nb"], sc["F"], sc["E"], sc["plan"]
    pm, _ = cvlib.parse_out(mout)
    replay = "\n".join("#! walker %d: %s" % (w, f) for w, f in enumerate(sc["files"])) + "\n#! model history: %s\n" % sc["gfile"]
    for w in range(n):
        replay += "#! ---- walker %d ops\n" % w + open(sc["files"][w]).read()
    replay += "#! ---- model ops\n" + open(sc["gfile"]).read()
    ncmp = 0
    pos_ = []
    for w, (rc, o) in enumerate(outs):
        if rc != 0:
            rep.violation("shared ABF: walker %d of %d ended with status %r (scenario %d)" % (w, n, rc, idx), replay, "shared_crash_%d_seed%d" % (idx, seed), found_input=True)
            return 0
        pos_.append(cvlib.parse_out(o)[0])
    rw, rk, rpend = sc["restart"]
    for k in range(1, E + 1):
        # everything recorded before exchange k, by anyone
        allb = [plan[v][s] for v in range(n) for s in range(1, k * F) if plan[v][s][0] is not None]
        tc, tg = tally(nb, allb)
        for w in range(n):
            ln = sc["dump"][(w, k)]; ml = sc["mdump"][(w, k)]
            got = {t: getv(pos_[w], ln, t) for t in ("samples", "grad", "lsamples", "lgrad")}
            mod = {t: getv(pm, ml, t) for t in ("samples", "grad", "lsamples", "lgrad")}
            if any(v is None for v in got.values()):
                rep.violation("shared ABF: walker %d reported no grids after exchange %d" % (w, k), replay, "shared_nodump_%d_seed%d" % (idx, seed), found_input=True)
                return ncmp
            ncmp += 1
            # correspondence
            for t in got:
                if len(got[t]) != len(mod[t]) or any(not close(a, b) for a, b in zip(got[t], mod[t])):
                    rep.violation("shared ABF: model and implementation disagree on %s of walker %d after exchange %d (scenario %d: %d walkers, sharedFreq %d): impl %r model %r"
                                  % (t, w, k, idx, n, F, got[t], mod[t]),
                                  "#! correspondence CvModel.Shared <-> colvarbias_abf::replica_share broken\n" + replay,
                                  "shared_corr_%d_seed%d" % (idx, seed), found_input=False)
                    return ncmp
            # oracle: the union of all samples before the exchange, each once (+ this walker's own sample of the exchange step)
            own = plan[w][k * F]
            ec = list(tc); eg = list(tg)
            if own[0] is not None:
                ec[own[0]] += 1; eg[own[0]] -= own[1]
            lc, lg = tally(nb, [plan[w][s] for s in range(1, k * F) if plan[w][s][0] is not None])
            bad = None
            if got["samples"] != ec or any(not close(a, b) for a, b in zip(got["grad"], eg)):
                bad = "the grids walker %d uses after exchange %d are not the union of all samples recorded before it (counts %r, expected %r)" % (w, k, got["samples"], ec)
            elif got["lsamples"] != lc or any(not close(a, b) for a, b in zip(got["lgrad"], lg)):
                bad = "walker %d's own contribution after exchange %d is not what it sampled itself (counts %r, expected %r)" % (w, k, got["lsamples"], lc)
            if bad:
                sig = None
                if rw >= 0 and rpend and k > rk:
                    # listed finding only when the discrepancy is exactly the one sample recorded at the stop step
                    pb = plan[rw][rk * F][0]
                    unit = [1 if j == pb else 0 for j in range(nb)]
                    dT = [a - b for a, b in zip(ec, got["samples"])]
                    dL = [a - b for a, b in zip(lc, got["lsamples"])]
                    if (dT == unit or dT == [0] * nb) and (dL == [0] * nb or (w == rw and dL == unit)):
                        sig = "shared ABF: the sample recorded at the stop step is not shared after a resume"
                rep.violation("shared ABF oracle: %s (scenario %d: %d walkers, sharedFreq %d%s)" % (
                    bad, idx, n, F, ", walker %d stopped and resumed at exchange %d %s a sample at that step" % (rw, rk, "with" if rpend else "without") if rw >= 0 else ""),
                    replay, "shared_oracle_%d_seed%d" % (idx, seed), found_input=True, signature=sig)
                return ncmp
    return ncmp


def extra(rep, tier, rng):
    exe = cvbuild.build_harness("rel")
    work = os.path.join(cvbuild.CACHE, "c14-%d" % os.getpid())
    shutil.rmtree(work, ignore_errors=True); os.makedirs(work)
    nsc = 8 if tier == "quick" else 60
    stats = {"shared_scenarios": 0, "walkers": 0, "dumps_compared": 0, "restarts": 0, "restarts_with_pending": 0}
    try:
        for idx in range(nsc):
            sc = shared_scenario(rng.fork(), work, idx)
            outs = run_walkers(exe, sc["files"])
            mrc, mout, merr = cvlib.run_model(sc["gfile"])
            if mrc != 0:
                rep.violation("model driver failed on a shared-ABF history: " + merr[-300:], "#! driver\n", "shared_driver", found_input=False)
                break
            stats["shared_scenarios"] += 1; stats["walkers"] += sc["n"]
            stats["restarts"] += int(sc["restart"][0] >= 0); stats["restarts_with_pending"] += int(sc["restart"][0] >= 0 and sc["restart"][2])
            stats["dumps_compared"] += check_shared(rep, sc, outs, mout, idx, rep.seed)
            shutil.rmtree(sc["comm"], ignore_errors=True)
    finally:
        shutil.rmtree(work, ignore_errors=True)
    rep.extra["multiwalker"] = stats
    rep.cov["evaluations"] = rep.cov.get("evaluations", 0) + stats["shared_scenarios"]
    rep.cov["distinct_nontrivial"] = rep.cov.get("distinct_nontrivial", 0) + stats["shared_scenarios"]
