"""C14 — multiple-walker sharing combines every walker's data exactly once."""
import os, shutil, subprocess, json
import cvbuild, cvlib
from cvlib import fbits, tok_val, esc
from cvscen import inj_cv, cfg, pos, tf, num

RULE = ("shared ABF: 2-4 walkers, each a separate process of the real library talking through the engine's replica messages, "
        "6-10 bins, sharedFreq 3-6, 2-4 exchanges, samples in random bins (some outside the grid), optional stop / resume of one "
        "walker at an exchange step with or without a sample recorded at that step; after every exchange each walker's grids "
        "and its own-contribution grids are compared with the model and recounted independently. Multiple-walker metadynamics: "
        "2-3 walkers as processes whose steps are interleaved by token files in a generated global order, peers' files read at "
        "replicaUpdateFrequency, one peer's hills file truncated in mid-record; each walker's bias is compared with the sum over "
        "the hills its peers had completely written when it last read them; non-trivial = at least two walkers sampled the same bin; "
        "distinct by scenario text")
ASSUMPTIONS = ["walkers of shared ABF advance in lock step (same step numbers), as the blocking exchange of the library requires",
               "the interleavings explored for metadynamics are total orders of whole steps (a step of the library is not preempted)"]


def gen(rng, tier):
    # the multi-process experiments are run by `extra`; one in-process case keeps the pipeline's shape
    return [{"lines": ["m.new 1", "M.noclock", cfg(inj_cv("x0", 0, -1.0, 1.0, 0.5)), pos(0, 0, 0, 0.2), "m.step"], "meta": {"kind": "placeholder"}, "nontrivial": True}]


def oracle(case, out):
    return []


def abf_conf(lo, nb, F):
    return (inj_cv("x0", 0, lo, lo + 0.5 * nb, 0.5),
            "abf {\n name b\n colvars x0\n fullSamples 1\n shared on\n sharedFreq %d\n}\n" % F)


def shared_scenario(rng, work, idx):
    n = rng.randint(2, 4); nb = rng.randint(6, 10); F = rng.randint(3, 6); E = rng.randint(2, 4)
    lo = -1.0
    cvc, bc = abf_conf(lo, nb, F)
    comm = os.path.join(work, "comm%d" % idx); os.makedirs(comm, exist_ok=True)
    restart_w = rng.randint(0, n - 1) if rng.rand() < 0.6 else -1
    restart_k = rng.randint(1, E - 1) if E > 1 else 1
    restart_pending = rng.rand() < 0.5
    steps = E * F
    # per walker, per step: (bin or None, force)
    plan = []
    for w in range(n):
        row = [None]
        for s in range(1, steps + 1):
            b = rng.randint(0, nb - 1) if rng.rand() < 0.85 else None
            if w == restart_w and s == restart_k * F:
                b = rng.randint(0, nb - 1) if restart_pending else None
            row.append((b, rng.uniform(-4, 4)))
        plan.append(row)
    files = []; dump_lines = {}
    for w in range(n):
        head = ["m.new 1", "m.opt tf_same 1", "m.opt tfloop 0", "m.opt replicas %d %d %s" % (w, n, comm), "M.noclock", cfg(cvc), cfg(bc)]
        L = list(head)
        L += [pos(0, 0.0, 0.0, 0.1), tf(0, 0.0, 0.0, 0.0), "m.step"]        # step 0: nothing recorded
        for s in range(1, steps + 1):
            b, f = plan[w][s]
            z = lo + 0.5 * (b + 0.5) if b is not None else lo - 0.7
            L += [pos(0, 0.0, 0.0, z), tf(0, 0.0, 0.0, f), "m.step"]
            if s % F == 0:
                L.append("a.dump b"); dump_lines[(w, s // F)] = len(L)
                if w == restart_w and s == restart_k * F:
                    pfx = os.path.join(work, "st%d_%d" % (idx, w))
                    L += ["m.save " + pfx] + head + ["m.load " + pfx, pos(0, 0.0, 0.0, z), tf(0, 0.0, 0.0, f), "m.step"]
        f_ = os.path.join(work, "w%d_%d.txt" % (idx, w))
        open(f_, "w").write("\n".join(L) + "\n")
        files.append(f_)
    # the same history for the model, as one global sequence
    G = ["W.new %d %d" % (n, nb)]
    mdump = {}
    order = list(range(n))
    for k in range(1, E + 1):
        # samples of steps (k-1)F+1 .. kF-1 of all walkers, interleaved at random (each walker's own order kept)
        pend2 = [w for w in range(n) for _ in range(F - 1)]
        rng.shuffle(pend2)
        cursor = {w: (k - 1) * F + 1 for w in range(n)}
        for w in pend2:
            s = cursor[w]; cursor[w] += 1
            b, f = plan[w][s]
            if b is not None:
                G.append("W.sample %d %d %s" % (w, b, fbits(f)))
        G.append("W.exchange")
        for w in range(n):
            b, f = plan[w][k * F]
            if b is not None:
                G.append("W.sample %d %d %s" % (w, b, fbits(f)))
        for w in range(n):
            G.append("W.dump %d" % w); mdump[(w, k)] = len(G)
        if restart_w >= 0 and k == restart_k:
            G.append("W.restart %d" % restart_w)
    gfile = os.path.join(work, "g%d.txt" % idx)
    open(gfile, "w").write("\n".join(G) + "\n")
    return {"n": n, "nb": nb, "F": F, "E": E, "plan": plan, "files": files, "gfile": gfile, "dump": dump_lines, "mdump": mdump,
            "restart": (restart_w, restart_k, restart_pending), "comm": comm}


def tally(nb, samples):
    c = [0] * nb; g = [0.0] * nb
    for b, f in samples:
        c[b] += 1; g[b] -= f
    return c, g


def run_walkers(exe, files, timeout=180):
    procs = [subprocess.Popen([exe, f], stdout=subprocess.PIPE, stderr=subprocess.DEVNULL, text=True, errors="replace") for f in files]
    outs = []
    for p in procs:
        try:
            o, _ = p.communicate(timeout=timeout)
            outs.append((p.returncode, o))
        except subprocess.TimeoutExpired:
            p.kill(); outs.append(("timeout", ""))
    return outs


def getv(po, ln, tag):
    v = po.get((ln, tag, 1))
    return None if v is None else [tok_val(t)[1] for t in v]


def close(a, b):
    return abs(a - b) <= 1e-9 + 1e-9 * max(abs(a), abs(b))


def check_shared(rep, sc, outs, mout, idx, seed):
    """returns number of compared dumps"""
    n, nb, F, E, plan = sc["n"], sc["nb"], sc["F"], sc["E"], sc["plan"]
    pm, _ = cvlib.parse_out(mout)
    replay = "\n".join("#! walker %d: %s" % (w, f) for w, f in enumerate(sc["files"])) + "\n#! model history: %s\n" % sc["gfile"]
    for w in range(n):
        replay += "#! ---- walker %d ops\n" % w + open(sc["files"][w]).read()
    replay += "#! ---- model ops\n" + open(sc["gfile"]).read()
    ncmp = 0
    pos_ = []
    for w, (rc, o) in enumerate(outs):
        if rc != 0:
            rep.violation("shared ABF: walker %d of %d ended with status %r (scenario %d)" % (w, n, rc, idx), replay, "shared_crash_%d_seed%d" % (idx, seed), found_input=True)
            return 0
        pos_.append(cvlib.parse_out(o)[0])
    rw, rk, rpend = sc["restart"]
    for k in range(1, E + 1):
        # everything recorded before exchange k, by anyone
        allb = [plan[v][s] for v in range(n) for s in range(1, k * F) if plan[v][s][0] is not None]
        tc, tg = tally(nb, allb)
        for w in range(n):
            ln = sc["dump"][(w, k)]; ml = sc["mdump"][(w, k)]
            got = {t: getv(pos_[w], ln, t) for t in ("samples", "grad", "lsamples", "lgrad")}
            mod = {t: getv(pm, ml, t) for t in ("samples", "grad", "lsamples", "lgrad")}
            if any(v is None for v in got.values()):
                rep.violation("shared ABF: walker %d reported no grids after exchange %d" % (w, k), replay, "shared_nodump_%d_seed%d" % (idx, seed), found_input=True)
                return ncmp
            ncmp += 1
            # oracle: the union of all samples before the exchange, each once (+ this walker's own sample of the exchange step)
            own = plan[w][k * F]
            ec = list(tc); eg = list(tg)
            if own[0] is not None:
                ec[own[0]] += 1; eg[own[0]] -= own[1]
            lc, lg = tally(nb, [plan[w][s] for s in range(1, k * F) if plan[w][s][0] is not None])
            bad = None
            if got["samples"] != ec or any(not close(a, b) for a, b in zip(got["grad"], eg)):
                bad = "the grids walker %d uses after exchange %d are not the union of all samples recorded before it (counts %r, expected %r)" % (w, k, got["samples"], ec)
            elif got["lsamples"] != lc or any(not close(a, b) for a, b in zip(got["lgrad"], lg)):
                bad = "walker %d's own contribution after exchange %d is not what it sampled itself (counts %r, expected %r)" % (w, k, got["lsamples"], lc)
            if bad:
                sig = None
                if rw >= 0 and rpend and k > rk:
                    # listed finding only when the discrepancy is exactly the one sample recorded at the stop step
                    pb = plan[rw][rk * F][0]
                    unit = [1 if j == pb else 0 for j in range(nb)]
                    dT = [a - b for a, b in zip(ec, got["samples"])]
                    dL = [a - b for a, b in zip(lc, got["lsamples"])]
                    if (dT == unit or dT == [0] * nb) and (dL == [0] * nb or (w == rw and dL == unit)):
                        sig = "shared ABF: the sample recorded at the stop step is not shared after a resume"
                rep.violation("shared ABF oracle: %s (scenario %d: %d walkers, sharedFreq %d%s)" % (
                    bad, idx, n, F, ", walker %d stopped and resumed at exchange %d %s a sample at that step" % (rw, rk, "with" if rpend else "without") if rw >= 0 else ""),
                    replay, "shared_oracle_%d_seed%d" % (idx, seed), found_input=True, signature=sig)
                return ncmp
            # correspondence
            for t in got:
                if len(got[t]) != len(mod[t]) or any(not close(a, b) for a, b in zip(got[t], mod[t])):
                    rep.violation("shared ABF: model and implementation disagree on %s of walker %d after exchange %d (scenario %d: %d walkers, sharedFreq %d): impl %r model %r"
                                  % (t, w, k, idx, n, F, got[t], mod[t]),
                                  "#! correspondence CvModel.Shared <-> colvarbias_abf::replica_share broken\n" + replay,
                                  "shared_corr_%d_seed%d" % (idx, seed), found_input=False)
                    return ncmp
    return ncmp


# ---------------------------------------------------------------- multiple-walker metadynamics
import math, itertools

SIG = 0.5          # hillWidth 2.0 x width 0.5 / 2
WGT = 0.2


def gauss(c, x):
    q = ((x - c) / SIG) ** 2
    return 0.0 if q > 23.0 else math.exp(-0.5 * q)


def meta_scenario(rng, work, idx):
    n = rng.randint(2, 3); u = rng.randint(2, 3); f = rng.randint(1, 2)
    R = rng.choice([0, 0, 4, 6])           # colvarsRestartFrequency: peers' state files are rewritten then
    S = rng.randint(10, 16)
    d = os.path.join(work, "mw%d" % idx); os.makedirs(d)
    dead = rng.randint(1, n - 1) if rng.rand() < 0.4 else -1        # a walker that stops early; its hills file is then cut
    dead_at = rng.randint(4, S - 4)
    cut = rng.randint(2, 60)              # (more than the final newline, less than one hill record: exactly the last record of the file is damaged)
    # or: a walker killed between publishing its new state file and restarting its hills file
    crash = False
    if R > 0 and rng.rand() < 0.6:
        # the survivors re-read the dead walker's state after their own next state write: run them past it
        crash = True; dead = rng.randint(0, n - 1); dead_at = R * rng.randint(1, 2); cut = 0
        S = max(S, dead_at + R + 4)
    cvc = inj_cv("x0", 0, -3.0, 3.0, 0.5)
    def bias(w):
        return ("metadynamics {\n name b\n colvars x0\n hillWeight 0.2\n hillWidth 2.0\n newHillFrequency %d\n useGrids off\n multipleReplicas on\n"
                " replicaID w%d\n replicasRegistry registry.txt\n replicaUpdateFrequency %d\n}\n" % (f, w, u))
    files = [[] for _ in range(n)]
    tok = [0]
    prev_tok = [None]
    def ev(w, lines, fatal=False):
        L = files[w]
        if prev_tok[0] is not None:
            L.append("x.wait %s" % prev_tok[0])
        L.extend(lines)
        if fatal:
            prev_tok[0] = "dead.tok"          # created by the driver once that process has died
        else:
            L.append("x.touch tok%d" % tok[0]); prev_tok[0] = "tok%d" % tok[0]
        tok[0] += 1
    xs = [[rng.uniform(-2.0, 2.0) for _ in range(S + 1)] for _ in range(n)]
    # the same history for the protocol model (CvModel/Walkers.lean), as one global sequence of events
    G = ["K.new %d %d %d %d" % (n, f, u, R)]
    mirrors = []               # (walker, line in its op file, line in the model file)
    for w in range(n):
        ev(w, ["m.new 1", "M.noclock", cfg(cvc), cfg(bias(w)), "m.opt restartfreq %d" % R, "m.opt prefix w%d" % w, pos(0, 0.0, 0.0, xs[w][0]), "m.step", "m.bias b", "mt.mirror b"])
        G += ["K.setup %d" % w, "K.step %d 0" % w, "K.mirror %d" % w]
        mirrors.append((w, 0, len(files[w]) - 1, len(G)))
    last = [S if w != dead else dead_at for w in range(n)]
    order = [w for w in range(n) for _ in range(last[w])]
    rng.shuffle(order)
    cursor = [1] * n
    events = []                # (walker, step, probe line in that walker's file)
    did_cut = False
    for w in order:
        s_ = cursor[w]; cursor[w] += 1
        pre = []
        if dead >= 0 and not crash and not did_cut and cursor[dead] > last[dead] and w != dead:
            pre = ["x.truncate w%d.colvars.b.w%d.hills -%d" % (dead, dead, cut)]; did_cut = True
        fatal = crash and w == dead and s_ == dead_at
        final = (s_ == last[w]) and not fatal
        if pre:
            G.append("K.truncate %d 1" % dead)
        # a walker that has done its last step closes its files there and then (not whenever its process happens to end)
        ev(w, pre + [pos(0, 0.0, 0.0, xs[w][s_]), "m.step", "m.bias b"] + ([] if fatal else ["mt.mirror b"]) + (["m.drop"] if final else []), fatal=fatal)
        G.append("K.step %d %d%s" % (w, s_, " kill" if fatal else ""))
        if not fatal:
            G.append("K.mirror %d" % w)
            mirrors.append((w, s_, len(files[w]) - (2 if final else 1), len(G)))
            events.append((w, s_, len(files[w]) - (3 if final else 2)))
        else:
            events.append((w, s_, None))
        if final:
            G.append("K.end %d" % w)
    paths = []
    for w in range(n):
        pth = os.path.join(d, "w%d.txt" % w)
        open(pth, "w").write("\n".join(files[w]) + "\n"); paths.append(pth)
    gfile = os.path.join(d, "model.txt")
    open(gfile, "w").write("\n".join(G) + "\n")
    return {"n": n, "u": u, "f": f, "R": R, "S": S, "dir": d, "files": paths, "events": events, "xs": xs, "dead": dead, "dead_at": dead_at, "cut": cut, "did_cut": did_cut, "crash": crash,
            "gfile": gfile, "mirrors": mirrors}


def run_walkers_cwd(exe, files, cwd, timeout=240, crash_walker=-1, crash_remove=0):
    procs = []
    for w, f in enumerate(files):
        env = dict(os.environ)
        if w == crash_walker:
            env.update(CV_FAULT_PREFIX=os.path.join(cwd, "w%d." % w), CV_FAULT_AT_REMOVE=str(crash_remove))
        procs.append(subprocess.Popen([exe, f], cwd=cwd, env=env, stdout=subprocess.PIPE, stderr=subprocess.DEVNULL, text=True, errors="replace"))
    outs = []
    if crash_walker >= 0:
        try:
            o, _ = procs[crash_walker].communicate(timeout=timeout)
        except subprocess.TimeoutExpired:
            procs[crash_walker].kill(); o = ""
        open(os.path.join(cwd, "dead.tok"), "w").write("1\n")
        crashed = (procs[crash_walker].returncode, o)
    for w, p in enumerate(procs):
        if w == crash_walker:
            outs.append(crashed); continue
        try:
            o, _ = p.communicate(timeout=timeout)
            outs.append((p.returncode, o))
        except subprocess.TimeoutExpired:
            p.kill(); outs.append(("timeout", ""))
    return outs


def check_meta(rep, sc, outs, idx, seed):
    n, u, f = sc["n"], sc["u"], sc["f"]
    replay = "#! multiple-walker metadynamics: %d walkers, newHillFrequency %d, replicaUpdateFrequency %d, restart frequency %d%s\n" % (
        n, f, u, sc["R"], (", walker %d is killed at step %d after renaming its new state file, before restarting its hills file (CV_FAULT_PREFIX=<dir>/w%d. CV_FAULT_AT_REMOVE=%d)" % (sc["dead"], sc["dead_at"], sc["dead"], 2 + 2 * (sc["dead_at"] // sc["R"]))) if sc.get("crash") else (", walker %d stops after step %d and its hills file loses its last %d bytes" % (sc["dead"], sc["dead_at"], sc["cut"]) if sc["dead"] >= 0 else ""))
    replay += "#! run each file below with the harness in one common directory, all at once\n"
    for w in range(n):
        replay += "#! ---- walker %d ops\n" % w + open(sc["files"][w]).read()
    po = []
    for w, (rc, o) in enumerate(outs):
        if sc.get("crash") and w == sc["dead"]:
            if rc != 77:
                rep.violation("multiple-walker metadynamics: the walker that was to be killed between its state file and its hills file ended with status %r (scenario %d)" % (rc, idx),
                              replay, "mw_nokill_%d_seed%d" % (idx, seed), found_input=False)
                return 0
        elif rc != 0:
            rep.violation("multiple-walker metadynamics: walker %d of %d ended with status %r (scenario %d)" % (w, n, rc, idx), replay, "mw_crash_%d_seed%d" % (idx, seed), found_input=True)
            return 0
        po.append(cvlib.parse_out(o)[0])
    # hills each walker deposits: at its steps s >= 1 with s % f == 0, centred at its position
    hills = [[(s_, sc["xs"][w][s_]) for s_ in range(1, (sc["S"] if w != sc["dead"] else sc["dead_at"]) + 1) if s_ % f == 0] for w in range(n)]
    nprobe = 0
    done = [0] * n                 # steps completed so far by each walker, in the global order
    share_seen = [[0] * n for _ in range(n)]    # share_seen[i][p]: hills of p flushed when i last read (lower bound on what i holds)
    flushed = [0] * n              # hills of p flushed so far (p flushes at its own share steps)
    prev_seen = [[0] * n for _ in range(n)]
    for (w, s_, ln) in sc["events"]:
        done[w] = s_
        nown = len([h for h in hills[w] if h[0] <= s_])
        if s_ % u == 0:
            flushed[w] = nown
            prev_seen[w] = list(share_seen[w])
            share_seen[w] = list(flushed)
        if ln is None:
            continue          # the step during which that walker was killed
        e = getv(po[w], ln, "e")
        if e is None:
            rep.violation("multiple-walker metadynamics: walker %d reported no energy at step %d" % (w, s_), replay, "mw_noenergy_%d_seed%d" % (idx, seed), found_input=True)
            return nprobe
        e = e[0]; x = sc["xs"][w][s_]
        own = sum(WGT * gauss(c, x) for (t, c) in hills[w] if t <= s_)
        peers = [p for p in range(n) if p != w]
        # every peer contributes a prefix of its hills: each hill once, in order, nothing invented
        sums = []
        for p in peers:
            upper = len([h for h in hills[p] if h[0] <= done[p]])
            acc = [0.0]
            for (t, c) in hills[p][:upper]:
                acc.append(acc[-1] + WGT * gauss(c, x))
            sums.append(acc)
        found = None
        for ks in itertools.product(*[range(len(a)) for a in sums]):
            tot = own + sum(a[k] for a, k in zip(sums, ks))
            if abs(tot - e) <= 1e-9 + 1e-9 * abs(e):
                found = ks if found is None else tuple(max(a, b) for a, b in zip(found, ks))
        nprobe += 1
        if found is None and sc["R"] > 0:
            # listed finding: hills a peer deposited before it last rewrote its state file (and restarted its hills file) are
            # missing until this walker re-reads the peers' states: the peer contributes hills j..k with all of 0..j-1 older
            # than that rewrite
            # (the peer contributes hills 0..a-1 and j..k-1: the gap a..j-1 lies entirely before the rewrite)
            wins = []
            for p, acc in zip(peers, sums):
                lastw = (done[p] // sc["R"]) * sc["R"]
                opts = {}
                for a in range(len(acc)):
                    for j in range(a, len(acc)):
                        # the gap starts with a hill older than the rewrite (its cursor in the restarted file is stale: hills
                        # written to the new file before the cursor position are skipped as well)
                        if j > a and hills[p][a][0] > lastw:
                            break
                        for k in range(j, len(acc)):
                            v = acc[a] + acc[k] - acc[j]
                            key = round(v, 12)
                            if key not in opts or (j - a) < opts[key][0]:
                                opts[key] = (j - a, v)
                wins.append(list(opts.values()))
            hit = None
            if len(wins) == 1:
                for c in wins[0]:
                    if abs(own + c[1] - e) <= 1e-9 + 1e-9 * abs(e):
                        hit = (c,); break
            else:
                # two peers: sort one side and search the complement
                import bisect
                B = sorted(wins[1], key=lambda c: c[1]); Bv = [c[1] for c in B]
                for c0 in wins[0]:
                    need_ = e - own - c0[1]
                    i0 = bisect.bisect_left(Bv, need_ - 1e-9 - 1e-9 * abs(e))
                    while i0 < len(B) and Bv[i0] <= need_ + 1e-9 + 1e-9 * abs(e):
                        hit = (c0, B[i0]); break
                    if hit:
                        break
            if hit is not None and any(c[0] > 0 for c in hit):
                rep.violation("multiple-walker metadynamics oracle: walker %d at step %d misses the hills walker(s) %s deposited before rewriting their state file"
                              % (w, s_, [p for p, c in zip(peers, hit) if c[0] > 0]), replay, "mw_window_%d_seed%d" % (idx, seed), found_input=True,
                              signature="multiple walkers: hills a peer deposited before rewriting its state are missing until the next re-read of the states")
                continue
        if found is None:
            rep.violation("multiple-walker metadynamics oracle: the energy walker %d reports at step %d (%r at x = %r) is not its own hills plus, for each peer, "
                          "the first k hills that peer has deposited (some hill counted twice, lost out of order, or invented) (scenario %d: %d walkers, hill frequency %d, "
                          "update frequency %d, restart frequency %d)" % (w, s_, e, x, idx, n, f, u, sc["R"]), replay, "mw_oracle_%d_seed%d" % (idx, seed), found_input=True)
            return nprobe
        # nothing that had been flushed one full read period ago may be missing (a cut file of a dead peer may lack its last record)
        for p, k in zip(peers, found):
            need = prev_seen[w][p] - (1 if (p == sc["dead"] and sc["did_cut"]) else 0)
            # ambiguity: hills that contribute exactly 0 at x do not show in the energy
            zero_tail = 0
            for (t, c) in reversed(hills[p][:max(need, 0)]):
                if gauss(c, x) == 0.0:
                    zero_tail += 1
                else:
                    break
            if k < need - zero_tail:
                sig = None
                if sc["R"] > 0 and all(h[0] <= (done[p] // sc["R"]) * sc["R"] for h in hills[p][k:need]):
                    # the listed finding lasts until the reader has re-read the states, which it does at the first exchange after its own
                    # next state write: a loss that is still there later is something else
                    t_rewrite = (done[p] // sc["R"]) * sc["R"]
                    t_reread = (t_rewrite // sc["R"] + 1) * sc["R"] + u + 1
                    if s_ <= t_reread:
                        sig = "multiple walkers: hills a peer deposited before rewriting its state are missing until the next re-read of the states"
                rep.violation("multiple-walker metadynamics oracle: walker %d at step %d holds only %d hills of walker %d although %d had been flushed before its "
                              "previous read (scenario %d)" % (w, s_, k, p, need, idx), replay, "mw_lost_%d_seed%d" % (idx, seed), found_input=True, signature=sig)
                if sig is None:
                    return nprobe
    return nprobe


def check_meta_mirrors(rep, sc, outs, mout, idx, seed, replay_head=""):
    """correspondence of the protocol model: after every step, the hills each walker holds of each peer"""
    pm, _ = cvlib.parse_out(mout)
    n = sc["n"]
    replay = replay_head + "#! multiple-walker metadynamics, file protocol: run each walker file with the harness in one common directory, all at once; model history last\n"
    for w in range(n):
        replay += "#! ---- walker %d ops\n" % w + open(sc["files"][w]).read()
    replay += "#! ---- model ops\n" + open(sc["gfile"]).read()
    po = {}
    for w, (rc, o) in enumerate(outs):
        po[w] = cvlib.parse_out(o)[0] if o else {}
    ncmp = 0
    for (w, s_, lnw, lnm) in sc["mirrors"]:
        if sc.get("crash") and w == sc["dead"] and s_ >= sc["dead_at"]:
            continue
        mod = {tag: [tok_val(t)[1] for t in v] for (l, tag, occ), v in pm.items() if l == lnm and tag.startswith("mir_")}
        imp = {tag: [tok_val(t)[1] for t in v] for (l, tag, occ), v in po[w].items() if l == lnw and tag.startswith("mir_")}
        ncmp += 1
        if mod != imp:
            rep.violation("multiple-walker metadynamics: model and implementation disagree on the hills walker %d holds of its peers after its step %d "
                          "(scenario %d: %d walkers, hill frequency %d, update frequency %d, restart frequency %d%s): impl %r model %r"
                          % (w, s_, idx, n, sc["f"], sc["u"], sc["R"], ", walker %d killed inside its state write at step %d" % (sc["dead"], sc["dead_at"]) if sc.get("crash") else
                             (", walker %d stops at step %d and its hills file is cut" % (sc["dead"], sc["dead_at"]) if sc["dead"] >= 0 else ""), imp, mod),
                          "#! correspondence CvModel.Walkers <-> colvarbias_meta::read_replica_files broken\n" + replay,
                          "mw_corr_%d_seed%d" % (idx, seed), found_input=False)
            return ncmp
    return ncmp


def extra(rep, tier, rng):
    exe = cvbuild.build_harness("rel")
    work = os.path.join(cvbuild.CACHE, "c14-%d" % os.getpid())
    shutil.rmtree(work, ignore_errors=True); os.makedirs(work)
    nsc = 8 if tier == "quick" else 60
    stats = {"shared_scenarios": 0, "walkers": 0, "dumps_compared": 0, "restarts": 0, "restarts_with_pending": 0}
    try:
        for idx in range(nsc):
            sc = shared_scenario(rng.fork(), work, idx)
            outs = run_walkers(exe, sc["files"])
            mrc, mout, merr = cvlib.run_model(sc["gfile"])
            if mrc != 0:
                rep.violation("model driver failed on a shared-ABF history: " + merr[-300:], "#! driver\n", "shared_driver", found_input=False)
                break
            stats["shared_scenarios"] += 1; stats["walkers"] += sc["n"]
            stats["restarts"] += int(sc["restart"][0] >= 0); stats["restarts_with_pending"] += int(sc["restart"][0] >= 0 and sc["restart"][2])
            stats["dumps_compared"] += check_shared(rep, sc, outs, mout, idx, rep.seed)
            shutil.rmtree(sc["comm"], ignore_errors=True)
        nmw = 6 if tier == "quick" else 50
        stats.update({"meta_scenarios": 0, "meta_probes": 0, "meta_dead_peer": 0})
        for idx in range(nmw):
            sc = meta_scenario(rng.fork(), work, idx)
            # removals of the killed walker's own files: hills + temporary state at set-up, then (temporary state, hills) per state write
            outs = run_walkers_cwd(exe, sc["files"], sc["dir"], crash_walker=sc["dead"] if sc["crash"] else -1,
                                   crash_remove=2 + 2 * (sc["dead_at"] // sc["R"]) if sc["crash"] else 0)
            stats["meta_scenarios"] += 1; stats["meta_dead_peer"] += int(sc["dead"] >= 0 and not sc["crash"])
            stats["meta_killed_between_files"] = stats.get("meta_killed_between_files", 0) + int(sc["crash"])
            stats["meta_probes"] += check_meta(rep, sc, outs, idx, rep.seed)
            mrc, mout, merr = cvlib.run_model(sc["gfile"])
            if mrc != 0:
                rep.violation("model driver failed on a multiple-walker history: " + merr[-300:], "#! driver\n", "mw_driver", found_input=False)
                break
            stats["meta_mirrors_compared"] = stats.get("meta_mirrors_compared", 0) + check_meta_mirrors(rep, sc, outs, mout, idx, rep.seed)
            shutil.rmtree(sc["dir"], ignore_errors=True)
    finally:
        shutil.rmtree(work, ignore_errors=True)
    rep.extra["multiwalker"] = stats
    rep.cov["evaluations"] = rep.cov.get("evaluations", 0) + stats["shared_scenarios"] + stats.get("meta_scenarios", 0)
    rep.cov["distinct_nontrivial"] = rep.cov.get("distinct_nontrivial", 0) + stats["shared_scenarios"] + stats.get("meta_scenarios", 0)
