"""C04 — ABF stores the per-bin mean force and applies its ramped negative."""
import math
from cvlib import fbits, bits_to_f, tok_val
from cvscen import inj_cv, cfg, pos, tf, num

RULE = ("ABF on 1-3 injected scalar variables (1-D optionally periodic), small fullSamples/minSamples so that the ramp is crossed, "
        "optional maxForce, optional harmonic bias on the same variables with and without subtractAppliedForce, both force-timing "
        "conventions with the engine's total force including Colvars' own previous force (closed loop), value histories entering "
        "and leaving the grid incl. exact bin edges, run boundaries (repeated step 0); non-trivial = at least one sample was "
        "accumulated and the applied force was non-zero at some step; distinct by op text")
ASSUMPTIONS = ["variables are distanceZ of one atom against a dummy atom (value = z, total force = z component, Jacobian 0)"]


def gen(rng, tier):
    n = 40 if tier == "quick" else 500
    cases = []
    for k in range(n):
        nd = rng.choice([1, 1, 1, 2, 2, 3])
        tf_same = rng.rand() < 0.4
        sub = [rng.rand() < 0.3 for _ in range(nd)]
        lo, hi, w, per, wc = [], [], [], [], []
        conf = ""
        for i in range(nd):
            wi = rng.choice([0.25, 0.5, 1.0])
            l = rng.dyadic(-3, 3, 2)
            nb = rng.randint(2, 5) if nd > 1 else rng.randint(2, 8)
            h = l + nb * wi
            P = 0.0; c = 0.0
            if nd == 1 and rng.rand() < 0.35:
                P = nb * wi; c = l + P / 2
            lo.append(l); hi.append(h); w.append(wi); per.append(P); wc.append(c)
            conf += inj_cv("x%d" % i, i, l, h, wi, P if P else None, c if P else None,
                           extra="  subtractAppliedForce on\n" if sub[i] else "")
        full = rng.randint(1, 6)
        mn = rng.randint(0, full - 1) if full > 1 else 0
        apply_b = rng.rand() < 0.85
        update_b = rng.rand() < 0.9
        step0 = tf_same and rng.rand() < 0.3
        has_max = rng.rand() < 0.3
        mf = [rng.choice([0.5, 1.0, 3.0]) for _ in range(nd)]
        abf = "abf {\n name abf\n colvars %s\n fullSamples %d\n" % (" ".join("x%d" % i for i in range(nd)), full)
        if full > 1:
            abf += " minSamples %d\n" % mn
        if not apply_b:
            abf += " applyBias off\n"
        if not update_b:
            abf += " updateBias off\n"
        if step0:
            abf += " stepZeroData on\n"
        if has_max:
            abf += " maxForce %s\n" % " ".join(num(x) for x in mf)
        abf += " integrate off\n}\n"
        harm = rng.rand() < 0.5
        # the companion bias is sometimes a pair of walls strictly inside the grid (their force bypasses the extended-Lagrangian path
        # of the variable, `fb_actual`; it is part of the applied force all the same)
        walls = harm and (k % 3 == 1) and not any(per)
        wk = rng.choice([1.0, 4.0])
        wl = [lo[i] + 0.3 * (hi[i] - lo[i]) for i in range(nd)]; wu = [hi[i] - 0.3 * (hi[i] - lo[i]) for i in range(nd)]
        hk = rng.choice([0.5, 2.0, 4.0]); hc = [rng.uniform(lo[i], hi[i]) for i in range(nd)]
        hconf = "harmonic {\n name hr\n colvars %s\n forceConstant %s\n centers %s\n}\n" % (
            " ".join("x%d" % i for i in range(nd)), num(hk), " ".join(num(x) for x in hc))
        lines = ["m.new %d" % nd, "m.opt tf_same %d" % (1 if tf_same else 0), "m.opt tfloop 1", cfg(conf), cfg(abf)]
        if walls:
            hconf = "harmonicWalls {\n name hr\n colvars %s\n forceConstant %s\n lowerWalls %s\n upperWalls %s\n}\n" % (
                " ".join("x%d" % i for i in range(nd)), num(wk), " ".join(num(x) for x in wl), " ".join(num(x) for x in wu))
        if harm:
            lines.append(cfg(hconf))
        lines += ["M.cv x%d %d %s %s %s %d" % (i, i, fbits(w[i]), fbits(per[i]), fbits(wc[i]), 1 if sub[i] else 0) for i in range(nd)]
        full_eff, mn_eff = (full, mn) if full > 1 else (1, 0)
        lines.append("M.abf abf %d %s %s %s %s %d %d %d %d %d %d %d %s" % (
            nd, " ".join("x%d" % i for i in range(nd)), " ".join(map(fbits, lo)), " ".join(map(fbits, hi)), " ".join(map(fbits, w)),
            full_eff, mn_eff, 1 if apply_b else 0, 1 if update_b else 0, 1 if (nd == 1 and per[0]) else 0, 1 if step0 else 0,
            1 if has_max else 0, " ".join(map(fbits, mf))))
        if walls:
            lines.append("M.restr hr walls %d %s k=%s lw=%s uw=%s lk=%s uk=%s" % (nd, " ".join("x%d" % i for i in range(nd)), fbits(wk),
                                                                              ",".join(fbits(x) for x in wl), ",".join(fbits(x) for x in wu), fbits(1.0), fbits(1.0)))
        elif harm:
            lines.append("M.harm hr %d %s %s %s" % (nd, " ".join("x%d" % i for i in range(nd)), fbits(hk), " ".join(map(fbits, hc))))
        nsteps = rng.randint(8, 40) if tier == "quick" else rng.randint(8, 120)
        rewind = (k % 4 == 2) or (nd == 1 and per[0] and k % 2 == 0)
        if rewind:
            import os as _os, cvbuild as _cb
            rw_pfx = _os.path.join(_cb.CACHE, "c04-scratch"); _os.makedirs(rw_pfx, exist_ok=True); rw_pfx = _os.path.join(rw_pfx, "rw%d" % k)
            nsteps = max(nsteps, 12)
        hist = []
        # a random walk that mostly stays in the grid, with excursions
        cur = [rng.uniform(lo[i], hi[i]) for i in range(nd)]
        for s_ in range(nsteps):
            xs, fs = [], []
            for i in range(nd):
                r = rng.rand()
                if r < 0.15:
                    cur[i] = lo[i] + rng.randint(-1, int(round((hi[i] - lo[i]) / w[i])) + 1) * w[i]   # exact edge
                elif r < 0.25:
                    cur[i] = rng.uniform(lo[i] - 2 * w[i], hi[i] + 2 * w[i])
                else:
                    cur[i] = cur[i] + rng.uniform(-0.6, 0.6) * w[i]
                xs.append(cur[i]); fs.append(rng.uniform(-5, 5))
                lines.append(pos(i, rng.uniform(-1, 1), rng.uniform(-1, 1), cur[i]))
                lines.append(tf(i, rng.uniform(-1, 1), rng.uniform(-1, 1), fs[i]))
            cont = s_ > 0 and rng.rand() < 0.1
            after_load = False
            if rewind and s_ == 2 * nsteps // 3:
                # back to the checkpoint in the same session: counts and gradient sums are those of the state again, and so is everything
                # derived from them (the mean subtracted for a periodic variable)
                # (the engine goes back to the coordinates of the checkpoint as well: the stop step is repeated)
                sv = [h_ for h_ in hist if h_.get("save")][0]
                xs = list(sv["x"]); cur = list(xs)
                for i in range(nd):
                    lines.append(pos(i, 0.0, 0.0, xs[i]))
                lines.append("m.load %s" % rw_pfx); after_load = True; cont = False
            lines.append("m.step cont" if cont else "m.step")
            step_line = len(lines)
            for i in range(nd):
                lines.append("m.cv x%d ft fa" % i)
            lines.append("m.forces")
            hist.append({"x": xs, "f": fs, "cont": cont, "line": step_line, "after_load": after_load})
            if rewind and s_ == nsteps // 3:
                lines.append("m.save %s" % rw_pfx); hist[-1]["save"] = True
            if rng.rand() < 0.1:
                lines.append("a.dump abf")
        lines.append("a.dump abf")
        cases.append({"lines": lines, "meta": {"nd": nd, "tf_same": tf_same, "sub": sub, "lo": lo, "hi": hi, "w": w, "period": per, "wrap": wc,
                                                "full": full_eff, "min": mn_eff, "apply": apply_b, "update": update_b, "step0": step0,
                                                "maxForce": mf if has_max else None, "harm": (hk, hc) if (harm and not walls) else None,
                                                "walls": (wk, wl, wu) if walls else None, "history": hist},
                      "nontrivial": True})
    return cases


def distribution(cases):
    d = {"nd": {}, "tf_same": 0, "subtract": 0, "periodic": 0, "harmonic": 0, "steps": 0, "cont_steps": 0, "maxForce": 0, "applyBias_off": 0}
    for c in cases:
        m = c["meta"]
        if "nd" not in m:
            continue
        d["nd"][m["nd"]] = d["nd"].get(m["nd"], 0) + 1
        d["tf_same"] += int(m["tf_same"]); d["subtract"] += int(any(m["sub"])); d["periodic"] += int(any(m["period"]))
        d["harmonic"] += int(m["harm"] is not None); d["walls"] = d.get("walls", 0) + int(m.get("walls") is not None); d["steps"] += len(m["history"]); d["cont_steps"] += sum(1 for h in m["history"] if h["cont"])
        d["maxForce"] += int(m["maxForce"] is not None); d["applyBias_off"] += int(not m["apply"])
    return d


def vals(out, ln, tag, occ=1):
    v = out.get((ln, tag, occ))
    return None if v is None else [tok_val(t)[1] for t in v]


def oracle(case, out):
    """independent recount: every eligible step contributes (total force on the variable when it acted, minus the ABF
    force applied then) to the bin occupied at that same step; the applied force is ramp * mean (zero-mean if periodic 1-D, capped)."""
    m = case["meta"]; L = case["lines"]; viol = []
    nd = m["nd"]
    nx = [int(math.floor((m["hi"][i] - m["lo"][i]) / m["w"][i] + 0.5)) for i in range(nd)]
    nt = 1
    for v in nx:
        nt *= v
    cnt = [0] * nt; grd = [[0.0] * nd for _ in range(nt)]
    it = 0; first = True
    prev = None  # previous step: dict(bin, fabf, fharm, fa)

    def wrapx(i, x):
        if m["period"][i]:
            P, c = m["period"][i], m["wrap"][i]
            return x - math.floor((x - c) / P + 0.5) * P
        return x

    def binof(xs):
        return [int(math.floor((wrapx(i, xs[i]) - m["lo"][i]) / m["w"][i])) for i in range(nd)]

    def addr(b):
        a = 0
        for i in range(nd):
            a = a * nx[i] + b[i]
        return a

    def ok(b):
        return all(0 <= b[i] < nx[i] for i in range(nd))

    applied_nonzero = False
    it_restart = 0; snap = None
    for h in m["history"]:
        if h.get("after_load") and snap is not None:
            cnt, grd, it = list(snap[0]), [list(g_) for g_ in snap[1]], snap[2]
            it_restart = it; first = True; prev = None
        if first:
            first = False; cont = False
        elif h["cont"]:
            cont = True
        else:
            it += 1; cont = False
        ln = h["line"]
        fa = []
        for i in range(nd):
            v = vals(out, ln + 1 + i, "fa")
            if v is None:
                return ["implementation printed no applied force"]
            fa.append(v[0])
        xs = h["x"]; b = binof(xs)
        # harmonic force in closed form
        fharm = [0.0] * nd
        if m["harm"]:
            hk, hc = m["harm"]
            for i in range(nd):
                d = wrapx(i, xs[i]) - hc[i]
                if m["period"][i]:
                    P = m["period"][i]; d = d - math.floor(d / P + 0.5) * P
                fharm[i] = -hk / (m["w"][i] ** 2) * d
        if m.get("walls"):
            wk, wl, wu = m["walls"]
            for i in range(nd):
                d = (xs[i] - wl[i]) if xs[i] < wl[i] else ((xs[i] - wu[i]) if xs[i] > wu[i] else 0.0)
                fharm[i] = -wk / (m["w"][i] ** 2) * d
        fabf = [fa[i] - fharm[i] for i in range(nd)]
        rel = it - it_restart
        elig = ((rel > 0 and not cont) or m["step0"]) and m["update"] and (rel > 0 or m["tf_same"])
        if elig:
            if m["tf_same"]:
                sb = b; sample = list(h["f"])
            else:
                sb = prev["bin"] if prev else [0] * nd
                # the engine's total force = system force + Colvars' force of the previous step; ABF's own part removed
                sample = [h["f"][i] + (prev["fharm"][i] if prev else 0.0) for i in range(nd)]
                for i in range(nd):
                    if m["sub"][i]:
                        sample[i] = h["f"][i]
            if ok(sb):
                a = addr(sb); cnt[a] += 1
                for i in range(nd):
                    grd[a][i] -= sample[i]
        # expected applied ABF force at this step
        exp = [0.0] * nd
        if m["apply"] and ok(b):
            a = addr(b); n_ = cnt[a]
            if n_ > 0:
                if n_ >= m["full"]:
                    r = 1.0
                elif n_ < m["min"] or n_ <= m["min"]:
                    r = 0.0
                else:
                    r = (n_ - m["min"]) / float(m["full"] - m["min"])
                exp = [r * grd[a][i] / n_ for i in range(nd)]
            if nd == 1 and m["period"][0]:
                avg = sum((grd[j][0] / cnt[j]) if cnt[j] > 0 else 0.0 for j in range(nt)) / nt
                exp[0] -= avg
            if m["maxForce"]:
                for i in range(nd):
                    if abs(exp[i]) > m["maxForce"][i]:
                        exp[i] = math.copysign(m["maxForce"][i], exp[i])
        for i in range(nd):
            if abs(exp[i] - fabf[i]) > 1e-7 * max(1.0, abs(exp[i])):
                viol.append("step %d: ABF force on variable %d is %r, the ramped mean of the recounted samples gives %r" % (it, i, fabf[i], exp[i]))
                return viol
            if abs(fabf[i]) > 1e-12:
                applied_nonzero = True
        prev = {"bin": b, "fabf": fabf, "fharm": fharm}
        if h.get("save"):
            snap = (list(cnt), [list(g_) for g_ in grd], it)
    last = len(L)
    s = vals(out, last, "samples"); g = vals(out, last, "grad")
    if s is None or g is None:
        return ["no ABF grids dumped"]
    if s != cnt:
        viol.append("stored counts %r differ from the recount %r" % (s, cnt))
    else:
        for a in range(nt):
            for i in range(nd):
                if abs(g[a * nd + i] - grd[a][i]) > 1e-7 * max(1.0, abs(grd[a][i])):
                    viol.append("stored gradient sum in bin %d/%d is %r, recount gives %r" % (a, i, g[a * nd + i], grd[a][i]))
                    return viol
    return viol
