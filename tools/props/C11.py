"""C11 — binary stream round trips and bounds; damaged state files; crash-consistent replacement."""
import os, subprocess, shutil, json
import cvbuild, cvlib
from cvlib import fbits, tok_val
from cvscen import inj_cv, cfg, pos, tf

RULE = ("(a) memory_stream: sequences of 1-6 writes of objects/vectors/strings with element sizes 1,2,4,8 and lengths 0-17 read "
        "back in order plus one read past the end; corrupted inputs: every truncation of a serialisation and length prefixes "
        "with high bits set; (b) state files of a 2-variable/4-bias module truncated at sampled offsets (all offsets in the "
        "thorough tier) and bit-flipped, text and binary, loaded in a fresh module and stepped; (c) process killed at every "
        "file operation of a state replacement and inside each write, surviving files classified and reloaded. "
        "non-trivial = at least one multi-byte element / non-empty state; distinct by op text")
ASSUMPTIONS = ["process death is simulated by _exit at interposed libc calls (rename, fopen, write/writev, fclose); data handed to write() "
               "before the death point is assumed to reach the disk, data after it not (no model of the OS page cache or of power loss)"]
TIMEOUT = 180      # (a quick-tier run takes seconds; a load that never returns is a violation of the property, not something to wait for)
TRUSTED_EXTRA = ["file-system model: rename is atomic and replaces its target; open(truncate) empties the file; a crash inside write() leaves a prefix"]

CONF = inj_cv("a", 0, 0.0, 4.0, 0.5) + inj_cv("b", 1, -2.0, 2.0, 0.5) + """
harmonic {
 name h1
 colvars a
 centers 1.0
 forceConstant 2.0
 targetCenters 3.0
 targetNumSteps 20
 outputAccumulatedWork on
}
abf {
 name abf1
 colvars b
 fullSamples 2
}
metadynamics {
 name m1
 colvars a b
 hillWeight 0.1
 newHillFrequency 2
 hillWidth 1.5
}
histogram {
 name hg
 colvars a
}
"""


def scratch():
    d = os.path.join(cvbuild.CACHE, "c11-%d" % os.getpid())
    os.makedirs(d, exist_ok=True)
    return d


def run_steps(rng, n):
    L = []
    for s in range(n):
        L += [pos(0, 0, 0, rng.uniform(0, 4)), pos(1, 0, 0, rng.uniform(-2, 2)), tf(1, 0, 0, rng.uniform(-3, 3)), "m.step"]
    return L


def reference_states(rng):
    """text and binary state of the reference module after 12 steps, produced by the real library"""
    d = scratch()
    L = ["m.new 2", cfg(CONF)] + run_steps(rng, 12) + ["m.save %s/ref" % d, "m.save %s/refb bin" % d]
    f = os.path.join(d, "ref_ops.txt")
    open(f, "w").write("\n".join(L) + "\n")
    rc, out, err = cvlib.run_impl(f)
    t = open(os.path.join(d, "ref.colvars.state"), "rb").read()
    b = open(os.path.join(d, "refb.colvars.state"), "rb").read()
    return t, b


def hexs(b):
    return b.hex() if b else "-"


def gen_ms(rng, tier):
    n = 80 if tier == "quick" else 1500
    cases = []
    for k in range(n):
        lines = ["m.new 2", "ms.new %d" % rng.choice([1 << 20, 1 << 20, 64, 24])]
        items = []
        for _ in range(rng.randint(1, 6)):
            kind = rng.choice(["obj", "vec", "vec", "str"])
            if kind == "obj":
                sz = rng.choice([1, 2, 4, 8]); b = bytes(rng.randint(0, 255) for _ in range(sz))
                lines.append("ms.w obj %d %s" % (sz, hexs(b))); items.append(("obj", sz, b))
            elif kind == "vec":
                sz = rng.choice([1, 2, 4, 8]); ln = rng.randint(0, 17); b = bytes(rng.randint(0, 255) for _ in range(sz * ln))
                lines.append("ms.w vec %d %s" % (sz, hexs(b))); items.append(("vec", sz, b))
            else:
                ln = rng.randint(0, 17); b = bytes(rng.randint(32, 126) for _ in range(ln))
                lines.append("ms.w str %s" % hexs(b)); items.append(("str", 1, b))
        lines.append("ms.loadw")
        for kind, sz, b in items:
            lines.append("ms.r %s%s" % (kind, "" if kind == "str" else " %d" % sz))
        lines.append("ms.r " + rng.choice(["obj 8", "vec 4", "str", "obj 1"]))
        cases.append({"lines": lines, "meta": {"ms": "roundtrip", "items": [(k_, s_, hexs(b_)) for k_, s_, b_ in items]},
                      "nontrivial": any(len(b_) > 1 for _, _, b_ in items)})
    # length prefixes near every power of two and near 2^64/esz, for every element size and for strings (systematic)
    bigs = [1 << 61, (1 << 61) + 1, 1 << 62, 1 << 63, (1 << 64) - 1, (1 << 64) - 8, (1 << 64) - 9, (1 << 64) - 16, (1 << 63) + 5,
            1 << 60, 1 << 32, (1 << 32) - 1, 1 << 31, 12, 13]
    for sz in (1, 2, 4, 8, "str"):
        e = 1 if sz == "str" else sz
        for big in bigs + [(1 << 64) // e, (1 << 64) // e + 1, (1 << 64) // e - 1]:
            body = bytes(rng.randint(0, 255) for _ in range(12))
            ser2 = (big % (1 << 64)).to_bytes(8, "little") + body
            lines = ["m.new 2", "ms.load %s" % hexs(ser2), "ms.r str" if sz == "str" else "ms.r vec %d" % sz, "ms.r obj 1"]
            cases.append({"lines": lines, "meta": {"ms": "biglen-sys", "esz": e, "len": big}, "nontrivial": True})
    # corrupted inputs
    m = 60 if tier == "quick" else 1200
    for k in range(m):
        sz = rng.choice([1, 2, 4, 8]); ln = rng.randint(0, 9)
        body = bytes(rng.randint(0, 255) for _ in range(sz * ln))
        ser = ln.to_bytes(8, "little") + body
        mode = rng.choice(["trunc", "trunc", "biglen", "flip"])
        if mode == "trunc":
            ser2 = ser[:rng.randint(0, len(ser))]
        elif mode == "biglen":
            big = rng.choice([1 << 61, (1 << 61) + 1, (1 << 63), (1 << 64) - 1, (1 << 62) + ln, 1 << 60, (1 << 64) // sz, (1 << 64) // sz + 1, 1 << 32])
            ser2 = (big % (1 << 64)).to_bytes(8, "little") + body
        else:
            i = rng.randint(0, len(ser) - 1); ser2 = bytearray(ser); ser2[i] ^= 1 << rng.randint(0, 7); ser2 = bytes(ser2)
        lines = ["m.new 2", "ms.load %s" % hexs(ser2), "ms.r vec %d" % sz if rng.rand() < 0.8 else "ms.r str", "ms.r obj 1"]
        cases.append({"lines": lines, "meta": {"ms": mode, "esz": sz, "len": ln}, "nontrivial": True})
    return cases


_REF = {}


def gen_states(rng, tier):
    """truncated / bit-flipped state files loaded by a fresh module, which is then stepped"""
    t, b = reference_states(rng.fork())
    _REF["text"], _REF["bin"] = t, b
    cases = []
    d = scratch()
    for fmt, data in (("text", t), ("bin", b)):
        if tier == "quick":
            offs = set([0, 1, 3, 4, 5, 8, len(data) - 1, len(data)] + [rng.randint(0, len(data)) for _ in range(40)])
            if fmt == "text":
                # stratified: every top-level block of the state (module header, each variable, each bias) is cut just after
                # its opening brace, somewhere inside, and just before its closing brace
                depth = 0; start = None
                for i, ch in enumerate(data):
                    if ch == 0x7b:
                        depth += 1
                        if depth == 1:
                            start = i
                    elif ch == 0x7d:
                        depth -= 1
                        if depth == 0 and start is not None and i > start + 2:
                            offs.update([start + 1, rng.randint(start + 2, i - 1), rng.randint(start + 2, i - 1), i])
            offs = sorted(offs)
            flips = 25
        else:
            offs = list(range(0, len(data) + 1))
            flips = 800
        for k in offs:
            lines = ["m.new 2", cfg(CONF), "m.loadhex %s/x %s" % (d, hexs(data[:k]))] + run_steps(rng, 3) + ["m.savestr"]
            cases.append({"lines": lines, "meta": {"state": "trunc", "fmt": fmt, "offset": k, "full": len(data)}, "nontrivial": k > 0})
        for _ in range(flips):
            i = rng.randint(0, len(data) - 1); bit = rng.randint(0, 7)
            dd = bytearray(data); dd[i] ^= 1 << bit
            lines = ["m.new 2", cfg(CONF), "m.loadhex %s/x %s" % (d, hexs(bytes(dd)))] + run_steps(rng, 3) + ["m.savestr"]
            cases.append({"lines": lines, "meta": {"state": "flip", "fmt": fmt, "offset": i, "bit": bit}, "nontrivial": True})
    return cases


def gen(rng, tier):
    return gen_ms(rng, tier) + gen_states(rng, tier)


def distribution(cases):
    d = {}
    for c in cases:
        m = c["meta"]
        k = "ms:" + m["ms"] if "ms" in m else ("state:%s:%s" % (m.get("state"), m.get("fmt")) if "state" in m else "corpus")
        d[k] = d.get(k, 0) + 1
    return d


def vals(out, ln, tag):
    v = out.get((ln, tag, 1))
    return None if v is None else [tok_val(t)[1] for t in v]


def text_depth_at(data, k):
    """brace depth of a text state at offset k (0 = between top-level blocks)"""
    depth = 0
    for ch in data[:k]:
        if ch == 0x7b:
            depth += 1
        elif ch == 0x7d:
            depth -= 1
    return depth


def oracle(case, out):
    m = case["meta"]; L = case["lines"]; viol = []
    if m.get("ms") == "roundtrip":
        items = m["items"]
        base = len(L) - len(items)  # 1-based line of first read = base
        # the items written before the first failed write (a full buffer) must be read back exactly
        nok = 0
        for i in range(len(items)):
            st = vals(out, 3 + i, "state")
            if st is None or st[0] != 0:
                break
            nok += 1
        if nok:
            for i, (kind, sz, hx) in enumerate(items[:nok]):
                v = vals(out, base + i, "val")
                if v is None:
                    viol.append("no value read back"); break
                got = v[-1]
                if got != hx:
                    viol.append(("write_vector elemSize!=8" if kind == "vec" and sz != 8 else None,
                                 "%s with element size %d written as %s is read back as %s" % (kind, sz, hx, got)))
                    break
    elif "state" in m:
        rc = vals(out, 3, "rc")
        if rc is None:
            return ["no result from loading the damaged state"]
        if m["state"] == "trunc" and m["fmt"] == "text" and 0 < m["offset"] < m["full"]:
            ref = _REF.get("text", b"")
            header_end = ref.find(b"}") + 1   # the module-level `configuration { }` header is optional by design (not an object's block)
            if m["offset"] > header_end and text_depth_at(ref, m["offset"]) > 0 and rc[0] == 0:
                viol.append("text state cut inside an object's block at offset %d was accepted" % m["offset"])
        if m["state"] == "trunc" and m["fmt"] == "bin" and 8 < m["offset"] < m["full"] and rc[0] == 0:
            data = _REF.get("bin", b""); k = m["offset"]; key = b"\x04\0\0\0\0\0\0\0hill"
            at_hill = any(data[k - r:k - r + 12] == key for r in range(0, 12) if k - r >= 0)
            viol.append(("binary metadynamics state cut at a hill-record boundary" if at_hill else None,
                         "binary state truncated at offset %d of %d (inside an object's block) was accepted" % (k, m["full"])))
        # the module must stay usable: the three steps and the final save return
        if vals(out, len(L), "rc") is None:
            viol.append("module unusable after loading a damaged state")
    return viol


# ---------------------------------------------------------------------------------------------
# process-level crash enumeration
# ---------------------------------------------------------------------------------------------
def classify(path, s_old, s_new):
    if not os.path.exists(path):
        return ("absent", 0)
    b = open(path, "rb").read()
    if b == s_new:
        return ("new", len(b))
    if b == s_old:
        return ("old", len(b))
    if s_new.startswith(b):
        return ("partial", len(b))
    return ("other", len(b))


def extra(rep, tier, rng):
    exe = cvbuild.build_harness("rel")
    d = scratch()
    work = os.path.join(d, "crash")
    shutil.rmtree(work, ignore_errors=True)
    os.makedirs(work)
    r2 = rng.fork()
    fmts = ["", " bin"]
    n_points = 0; n_loaded = 0; samples = []; mism = 0
    for fmt in fmts:
        steps1 = run_steps(r2, 6); steps2 = run_steps(r2, 5)
        prefix = os.path.join(work, "st")
        base = ["m.new 2", cfg(CONF)] + steps1 + ["m.save %s%s" % (prefix, fmt)] + steps2
        ops = base + ["m.save %s%s" % (prefix, fmt)]
        opf = os.path.join(work, "ops.txt")
        open(opf, "w").write("\n".join(ops) + "\n")
        f = prefix + ".colvars.state"

        def clean():
            for x in (f, f + ".old"):
                if os.path.exists(x):
                    os.unlink(x)
        # reference: no fault, with log
        clean()
        log = os.path.join(work, "log")
        if os.path.exists(log):
            os.unlink(log)
        env = dict(os.environ, CV_FAULT_PREFIX=work + "/", CV_FAULT_LOG=log, OMP_NUM_THREADS="1")
        subprocess.run([exe, opf], env=env, stdout=subprocess.DEVNULL, stderr=subprocess.DEVNULL)
        s_new = open(f, "rb").read(); s_old = open(f + ".old", "rb").read()
        oplog = [l.split() for l in open(log)]
        kinds = [l[1] for l in oplog]
        # protocol correspondence: first write = open write+ close ; replacement = rename open write+ close
        first_end = kinds.index("close")
        second = kinds[first_end + 1:]
        expect_ok = (kinds[0] == "open" and set(kinds[1:first_end]) == {"write"} and second[0] == "rename" and second[1] == "open"
                     and set(second[2:-1]) == {"write"} and second[-1] == "close")
        if not expect_ok:
            rep.violation("the file operations of a state replacement no longer follow the modelled protocol "
                          "(backup-rename, open-truncate, write*, close): %s" % kinds,
                          "#! correspondence CvModel/FileSys.lean <-> colvarproxy_io broken\n#! observed: %s\n" % kinds + "\n".join(ops) + "\n",
                          "crash_protocol", found_input=False)
            continue
        nwrites = len(second) - 3
        # crash points of the second save: before op k (k = first_end+2 .. end), and inside each write
        k0 = first_end + 2
        points = []
        for k in range(k0, len(kinds) + 1):
            points.append((k, 0.0))
            if kinds[k - 1] == "write":
                fr = [0.5] if tier == "quick" else [0.01, 0.25, 0.5, 0.75, 0.99]
                points += [(k, x) for x in fr]
        points.append((len(kinds) + 1, 0.0))  # no crash at all
        model_lines = []
        for (k, frac) in points:
            clean()
            env2 = dict(env, CV_FAULT_AT=str(k), CV_FAULT_FRAC=str(frac))
            env2.pop("CV_FAULT_LOG")
            p = subprocess.run([exe, opf], env=env2, stdout=subprocess.DEVNULL, stderr=subprocess.DEVNULL)
            cf = classify(f, s_old, s_new); co = classify(f + ".old", s_old, s_new)
            n_points += 1
            # model: crashAt on the abstract protocol; k relative to the replacement
            kk = k - k0   # number of completed operations of the replacement
            wsizes = [int(l[4]) for l in oplog[k0 - 1 + 2:k0 - 1 + 2 + nwrites]]
            j = int(frac * wsizes[kk - 2]) if 2 <= kk < 2 + nwrites else 0
            model_lines.append((kk, j, cf, co, wsizes))
            ok_complete = cf[0] in ("old", "new") or co[0] in ("old", "new")
            desc = {"fmt": fmt.strip() or "text", "crash_before_op": k, "op": kinds[k - 1] if k <= len(kinds) else "none",
                    "frac": frac, "file": cf, "old": co, "exit": p.returncode}
            if len(samples) < 4:
                samples.append(desc)
            if not ok_complete:
                rep.violation("after process death at file operation %d (%s, fraction %.2f) neither the state file nor its .old backup is complete: %s"
                              % (k, desc["op"], frac, json.dumps(desc)),
                              "#! CV_FAULT_PREFIX=%s/ CV_FAULT_AT=%d CV_FAULT_FRAC=%s\n" % (work, k, frac) + "\n".join(ops) + "\n",
                              "crash_k%d" % k, found_input=True)
                continue
            # reload the survivor in a fresh process
            surv = f if cf[0] in ("old", "new") else f + ".old"
            lp = os.path.join(work, "load")
            shutil.copy(surv, lp + ".colvars.state")
            lops = ["m.new 2", cfg(CONF), "m.load %s" % lp] + run_steps(r2, 2)
            lf = os.path.join(work, "lops.txt")
            open(lf, "w").write("\n".join(lops) + "\n")
            q = subprocess.run([exe, lf], stdout=subprocess.PIPE, stderr=subprocess.DEVNULL, text=True,
                               env=dict(os.environ, OMP_NUM_THREADS="1"))
            po, _ = cvlib.parse_out(q.stdout)
            rc = po.get((3, "rc", 1))
            if q.returncode != 0 or rc != ["i0"]:
                rep.violation("the surviving state after a crash at operation %d cannot be loaded (exit %d, rc %s)" % (k, q.returncode, rc),
                              "\n".join(lops) + "\n", "crash_reload_k%d" % k, found_input=True)
            else:
                n_loaded += 1
        # compare with the Lean model of the protocol
        mf = os.path.join(work, "model_ops.txt")
        with open(mf, "w") as fh:
            for (kk, j, cf, co, wsizes) in model_lines:
                fh.write("fs.crash %d %d %d %s\n" % (len(s_old), kk, j, " ".join(map(str, wsizes))))
        mrc, mout, merr = cvlib.run_model(mf)
        pm, _ = cvlib.parse_out(mout)
        for i, (kk, j, cf, co, wsizes) in enumerate(model_lines, 1):
            mfv = pm.get((i, "f", 1)); mov = pm.get((i, "old", 1))
            want_f = ["s" + cf[0], "i%d" % cf[1]]; want_o = ["s" + co[0], "i%d" % co[1]]
            if mfv != want_f or mov != want_o:
                mism += 1
                rep.violation("crash outcome differs from the protocol model at k=%d j=%d: disk f=%s old=%s, model f=%s old=%s" % (kk, j, cf, co, mfv, mov),
                              "#! correspondence CvModel/FileSys.lean <-> real file operations broken (fs.crash k=%d j=%d)\n" % (kk, j) + "\n".join(ops) + "\n",
                              "crash_model_k%d" % kk, found_input=False)
                break
    rep.extra["crash_points_explored"] = n_points
    rep.extra["crash_survivors_reloaded"] = n_loaded
    rep.extra["crash_samples"] = samples
    rep.cov["evaluations"] += n_points
    # the state file a multiple-walker metadynamics bias publishes for its peers (temporary file + rename, no backup)
    publish_crash(rep, exe, work, r2, tier)
    # the recorded finding: two crashes in a row
    double_crash(rep, exe, work, r2)
    shutil.rmtree(d, ignore_errors=True)


def publish_crash(rep, exe, work, rng, tier):
    """process death at every file operation while the walker's published state file is replaced twice; after each death the
    published file must hold one of the complete generations"""
    pw = os.path.join(work, "mw")
    shutil.rmtree(pw, ignore_errors=True); os.makedirs(pw)
    conf = inj_cv("x0", 0, -3.0, 3.0, 0.5) + (
        "metadynamics {\n name b\n colvars x0\n hillWeight 0.2\n hillWidth 2.0\n newHillFrequency 2\n useGrids off\n multipleReplicas on\n"
        " replicaID w0\n replicasRegistry registry.txt\n replicaUpdateFrequency 1000\n}\n")
    pw = os.path.realpath(pw)
    prefix = os.path.join(pw, "out")           # the library names the walker's files <cwd>/<output prefix>...: run in `pw` with the prefix "out"
    def steps(n):
        L = []
        for _ in range(n):
            L += [pos(0, 0.0, 0.0, rng.uniform(-2, 2)), "m.step"]
        return L
    ops = ["m.new 1", cfg(conf), "m.opt prefix out"] + steps(7) + ["m.endrun"] + steps(6) + ["m.endrun"]
    opf = os.path.join(pw, "ops.txt")
    open(opf, "w").write("\n".join(ops) + "\n")
    pub = prefix + ".colvars.b.w0.state"
    def clean():
        for fn in os.listdir(pw):
            if fn != "ops.txt":
                os.unlink(os.path.join(pw, fn))
    clean()
    log = os.path.join(pw, "log")
    env = dict(os.environ, CV_FAULT_PREFIX=prefix, CV_FAULT_LOG=log, OMP_NUM_THREADS="1")
    q = subprocess.run([exe, opf], cwd=pw, env=env, stdout=subprocess.DEVNULL, stderr=subprocess.DEVNULL)
    if q.returncode != 0 or not os.path.exists(pub):
        rep.violation("a multiple-walker metadynamics run did not publish its state file %s (exit %s)" % (pub, q.returncode), "\n".join(ops) + "\n",
                      "publish_setup", found_input=True)
        return
    final = open(pub, "rb").read()
    oplog = [l.split() for l in open(log)]
    os.unlink(log)
    # operations on the published file and its temporary
    mine = [(int(l[0]), l[1], l[2], l[3], int(l[4])) for l in oplog if l[2].startswith(pub) or l[3].startswith(pub)]
    kinds = [m[1] for m in mine]
    # protocol correspondence: each replacement = open(tmp) write+ close(tmp) rename(tmp, file)
    groups = []; cur = []
    for m in mine:
        cur.append(m)
        if m[1] == "rename":
            groups.append(cur); cur = []
    shape_ok = not cur and len(groups) >= 2 and all(
        g[0][1] == "open" and g[0][2].endswith(".tmp") and g[-2][1] == "close" and g[-1][1] == "rename" and g[-1][3] == pub
        and len(g) >= 4 and all(x[1] == "write" for x in g[1:-2]) for g in groups)
    if not shape_ok:
        rep.violation("the file operations that replace the published walker state no longer follow the modelled protocol "
                      "(open tmp, write*, close tmp, rename tmp -> file): %s" % kinds,
                      "#! correspondence CvModel/FileSys.lean (publishOps) <-> colvarbias_meta::write_replica_state_file broken\n#! observed: %s\n" % kinds
                      + "\n".join(ops) + "\n", "publish_protocol", found_input=False)
    # complete generations: what the file holds whenever the next replacement starts (= death just before each open of the temporary), and at the end
    gens = [final]
    opens = [m[0] for m in mine if m[1] == "open" and m[2].endswith(".tmp")]
    for k in opens[1:]:
        clean()
        subprocess.run([exe, opf], cwd=pw, env=dict(os.environ, CV_FAULT_PREFIX=prefix, CV_FAULT_AT=str(k), OMP_NUM_THREADS="1"),
                       stdout=subprocess.DEVNULL, stderr=subprocess.DEVNULL)
        if os.path.exists(pub):
            gens.append(open(pub, "rb").read())
    first_pub = next((m[0] for m in mine if m[1] == "rename"), None)
    npts = 0; model_lines = []
    last = int(oplog[-1][0])
    for k in range((first_pub or 0) + 1, last + 2):
        entry = next((l for l in oplog if int(l[0]) == k), None)
        fracs = [0.0]
        if entry is not None and entry[1] == "write":
            fracs = [0.0, 0.5] if tier == "quick" else [0.0, 0.01, 0.5, 0.99]
        for fr in fracs:
            clean()
            subprocess.run([exe, opf], cwd=pw, env=dict(os.environ, CV_FAULT_PREFIX=prefix, CV_FAULT_AT=str(k), CV_FAULT_FRAC=str(fr), OMP_NUM_THREADS="1"),
                           stdout=subprocess.DEVNULL, stderr=subprocess.DEVNULL)
            npts += 1
            have = open(pub, "rb").read() if os.path.exists(pub) else None
            if have is None or have not in gens:
                what = "absent" if have is None else ("%d bytes, a cut copy of a complete state" % len(have) if any(g.startswith(have) for g in gens) else "%d bytes" % len(have))
                rep.violation("after process death at file operation %d (%s %s, fraction %.2f) the published walker state %s holds no complete state (%s; complete "
                              "generations have %s bytes) and there is no backup of it" % (k, entry[1] if entry else "end", os.path.basename(entry[2]) if entry else "",
                                                                                           fr, os.path.basename(pub), what, sorted(set(len(g) for g in gens))),
                              "#! CV_FAULT_PREFIX=%s CV_FAULT_AT=%d CV_FAULT_FRAC=%s\n" % (prefix, k, fr) + "\n".join(ops) + "\n", "publish_crash_k%d" % k, found_input=True)
                rep.extra["publish_crash_points"] = npts
                return
    rep.extra["publish_crash_points"] = npts
    rep.extra["publish_generations"] = [len(g) for g in gens]
    rep.cov["evaluations"] += npts
    # the model of the protocol against the second replacement: death after k complete operations of it and j bytes of a write
    if shape_ok and len(gens) >= 3:
        g = groups[1]; k0 = g[0][0]; ws = [x[4] for x in g[1:-2]]
        s_old, s_new = gens[1], gens[2]          # the generations before and after the second replacement
        mf = os.path.join(work, "pmodel_ops.txt"); rows = []
        with open(mf, "w") as fh:
            for i, m in enumerate(g + [None]):
                kk = i + 1                    # publishOps starts with removeTmp (not counted by the fault layer)
                for j in ([0, ws[i - 1] // 2] if (m is not None and m[1] == "write") else [0]):
                    clean()
                    kabs = (m[0] if m is not None else g[-1][0] + 1)
                    fr = (j / float(ws[i - 1])) if j else 0.0
                    subprocess.run([exe, opf], cwd=pw, env=dict(os.environ, CV_FAULT_PREFIX=prefix, CV_FAULT_AT=str(kabs), CV_FAULT_FRAC=repr(fr), OMP_NUM_THREADS="1"),
                                   stdout=subprocess.DEVNULL, stderr=subprocess.DEVNULL)
                    have = open(pub, "rb").read() if os.path.exists(pub) else None
                    jj = int(fr * ws[i - 1]) if j else 0
                    fh.write("fs.pcrash %d %d %d %s\n" % (len(s_old), kk, jj, " ".join(map(str, ws))))
                    rows.append((kk, jj, have))
        mrc, mout, merr = cvlib.run_model(mf)
        pm, _ = cvlib.parse_out(mout)
        new_len = sum(ws)
        for i, (kk, jj, have) in enumerate(rows, 1):
            mv = pm.get((i, "pub", 1))
            cls = "absent" if have is None else ("new" if have == s_new else ("old" if have == s_old else "other"))
            if mv is None or mv[0] != "s" + cls:
                rep.violation("death after %d operations (+%d bytes) of the second replacement of the published state: disk holds '%s', the protocol model says %s" % (kk, jj, cls, mv),
                              "#! correspondence CvModel/FileSys.lean (pcrashAt / publishOps) <-> real file operations broken (fs.pcrash k=%d j=%d)\n" % (kk, jj)
                              + "\n".join(ops) + "\n", "publish_model_k%d" % kk, found_input=False)
                break


def double_crash(rep, exe, work, rng):
    """crash while replacing, resume from the good .old, crash while replacing again (known finding)"""
    prefix = os.path.join(work, "dc")
    f = prefix + ".colvars.state"
    for x in (f, f + ".old"):
        if os.path.exists(x):
            os.unlink(x)
    ops1 = ["m.new 2", cfg(CONF)] + run_steps(rng, 4) + ["m.save %s" % prefix] + run_steps(rng, 3) + ["m.save %s" % prefix]
    opf = os.path.join(work, "dc1.txt"); open(opf, "w").write("\n".join(ops1) + "\n")
    env = dict(os.environ, CV_FAULT_PREFIX=work + "/", OMP_NUM_THREADS="1")
    # ops: 1 open 2 write 3 close 4 rename 5 open 6 write 7 close -> die inside op 6
    subprocess.run([exe, opf], env=dict(env, CV_FAULT_AT="6", CV_FAULT_FRAC="0.5"), stdout=subprocess.DEVNULL, stderr=subprocess.DEVNULL)
    good = open(f + ".old", "rb").read() if os.path.exists(f + ".old") else b""
    # resume from .old (input prefix = the .old file), keep the same output name, die inside the first write of the next save
    ops2 = ["m.new 2", cfg(CONF), "m.load %s" % (f + ".old")] + run_steps(rng, 3) + ["m.save %s" % prefix]
    opf2 = os.path.join(work, "dc2.txt"); open(opf2, "w").write("\n".join(ops2) + "\n")
    subprocess.run([exe, opf2], env=dict(env, CV_FAULT_AT="3", CV_FAULT_FRAC="0.5"), stdout=subprocess.DEVNULL, stderr=subprocess.DEVNULL)
    cur = open(f, "rb").read() if os.path.exists(f) else None
    old = open(f + ".old", "rb").read() if os.path.exists(f + ".old") else None
    complete_left = (old == good and len(good) > 0)
    rep.extra["double_crash"] = {"old_is_still_good": complete_left, "len_file": None if cur is None else len(cur),
                                 "len_old": None if old is None else len(old), "len_good": len(good)}
    if not complete_left:
        rep.violation("crash during a state write, resume from the .old backup, crash during the next write: the partial file was renamed "
                      "over the good backup and no complete state is left",
                      "#! run 1: CV_FAULT_AT=6 CV_FAULT_FRAC=0.5 ; run 2 (after '#--'): CV_FAULT_AT=3 CV_FAULT_FRAC=0.5, CV_FAULT_PREFIX=%s/\n" % work
                      + "\n".join(ops1) + "\n#--\n" + "\n".join(ops2) + "\n",
                      "double_crash", found_input=True, signature="double-crash: partial file renamed over good .old")


# ---------------------------------------------------------------------------------------------
# states that are well-formed but do not fit the configuration that loads them (under AddressSanitizer)
# ---------------------------------------------------------------------------------------------
def foreign_states(rep, tier, rng):
    """a state written by a run with a longer lambda schedule (stage beyond the schedule of the loading configuration), text and binary:
    the load and the steps after it must not touch memory out of bounds"""
    exe = cvbuild.build_harness("asan")
    d = os.path.join(scratch(), "foreign")
    shutil.rmtree(d, ignore_errors=True)
    os.makedirs(d)
    def bias(sched):
        return "harmonic {\n name hb\n colvars a\n centers 0.0\n forceConstant 1.0\n targetForceConstant 5.0\n targetNumSteps 2\n lambdaSchedule %s\n}\n" % sched
    cvc = inj_cv("a", 0, -3.0, 3.0, 0.5)
    n = 0
    for fmt in ("", " bin"):
        for long_, short in (("0.0 0.2 0.5 0.8 1.0", "0.0 1.0"), ("0.0 0.1 0.2 0.3 0.4 0.6 0.8 1.0", "0.0 0.5 1.0")):
            pfx = os.path.join(d, "st%d" % n)
            L = ["m.new 1", "M.noclock", cfg(cvc + bias(long_))]
            for t in range(2 * len(long_.split())):
                L += [pos(0, 0.0, 0.0, 0.1 * t), "m.step"]
            L += ["m.save %s%s" % (pfx, fmt), "m.new 1", "M.noclock", cfg(cvc + bias(short)), "m.load %s" % pfx]
            for t in range(4):
                L += [pos(0, 0.0, 0.0, 0.1 * t), "m.step", "m.bias hb"]
            opf = os.path.join(d, "foreign%d.txt" % n)
            open(opf, "w").write("\n".join(L) + "\n")
            p = subprocess.run([exe, opf], stdout=subprocess.PIPE, stderr=subprocess.PIPE, text=True, timeout=300)
            n += 1
            if p.returncode != 0:
                why = [l for l in p.stderr.splitlines() if "AddressSanitizer" in l or "SUMMARY" in l][:2]
                rep.violation("a state written with the schedule (%s) loaded by a configuration with the schedule (%s)%s: the process ends with status %d %s"
                              % (long_, short, fmt, p.returncode, " | ".join(why)[:300]), "\n".join(L) + "\n", "foreign_state_%d" % n, found_input=True,
                              signature="staged restraint: stage beyond the schedule after loading")
    rep.extra["foreign_states"] = {"cases": n, "harness": "AddressSanitizer"}


_extra_crash = extra


def extra(rep, tier, rng):
    _extra_crash(rep, tier, rng)
    foreign_states(rep, tier, rng.fork())
