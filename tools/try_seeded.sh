#!/bin/bash
# usage: try_seeded.sh <seeded dir name> <PROP> [tier] — applies the patch to /repo, runs the check, reverts
D=/verif/seeded/$1; P=$2; T=${3:-quick}
cd /repo && git diff --quiet || { echo "/repo not clean"; exit 2; }
git -C /repo apply $D/patch.diff || exit 2
cd /verif && ./check $P --tier $T > /tmp/try-$1-$P.log 2>&1; RC=$?
git -C /repo checkout -- .
echo "check $P on $1: exit $RC"; grep -c VIOLATION /tmp/try-$1-$P.log; grep "VIOLATION\|^#" /tmp/try-$1-$P.log | cut -c1-300 | head -6
# rebuild the clean library right away so later checks do not pay for it
python3 /verif/tools/cvbuild.py lib >/dev/null
