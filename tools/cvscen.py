"""Helpers to build module-level scenarios with value injection (DESIGN §2)."""
from cvlib import fbits, esc


def num(x):
    return "%.17g" % x


def inj_cv(name, atom, lower=None, upper=None, width=None, period=None, wrap=None, extra=""):
    """scalar variable whose value is exactly the z coordinate of engine atom `atom` (0-based)"""
    s = "colvar {\n  name %s\n" % name
    if width is not None:
        s += "  width %s\n" % num(width)
    if lower is not None:
        s += "  lowerBoundary %s\n" % num(lower)
    if upper is not None:
        s += "  upperBoundary %s\n" % num(upper)
    s += extra
    s += "  distanceZ {\n    main { atomNumbers %d }\n    ref { dummyAtom (0.0, 0.0, 0.0) }\n    axis (0.0, 0.0, 1.0)\n    oneSiteTotalForce on\n" % (atom + 1)
    if period is not None:
        s += "    period %s\n" % num(period)
        if wrap:
            s += "    wrapAround %s\n" % num(wrap)
    s += "  }\n}\n"
    return s


def vec_cv(name, atoms, lower=None, upper=None, width=None):
    """vector variable = concatenated cartesian coordinates of the atoms"""
    s = "colvar {\n  name %s\n" % name
    if width is not None:
        s += "  width %s\n" % num(width)
    if lower is not None:
        s += "  lowerBoundary %s\n" % num(lower)
    if upper is not None:
        s += "  upperBoundary %s\n" % num(upper)
    s += "  cartesian {\n    atoms { atomNumbers %s }\n  }\n}\n" % " ".join(str(a + 1) for a in atoms)
    return s


def cfg(text):
    return "m.cfg " + esc(text)


def pos(a, x, y, z):
    return "m.pos %d %s %s %s" % (a, fbits(x), fbits(y), fbits(z))


def tf(a, x, y, z):
    return "m.tf %d %s %s %s" % (a, fbits(x), fbits(y), fbits(z))
